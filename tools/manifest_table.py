SOURCE_COMMITS = []
NOTES = ("Solver-based checking of the real code. Exit codes: 0 holds within the stated bounds, 1 reproduced "
         "violation (VIOLATION line), 2 inconclusive (never reported as success). Bounds, functions encoded, "
         "queries and solver time are in each evidence file. Genuine defects repaired in /repo are listed in "
         "known_findings.json under 'fixed'.")
ENGINES = [
    {"name": "nia (translation validation)", "path": "harness/C16.py", "serves_properties": ["C16"],
     "kind_free_text": "SymPy results of the real SymbolicDim/parser code are translated to z3 Real/Int terms and proved equal to a reference semantics for all positive integer bindings"},
    {"name": "symnp+shadow", "path": "engine/symnp.py, engine/shadow.py", "serves_properties": ["C04"],
     "kind_free_text": "the current source of _type_casting/_core/serde is recompiled into shadow modules whose numpy/mmap/open/os globals are shims over z3 bit-vector cells and z3 arrays; the real tensor code then runs on fully symbolic payloads, offsets and file contents"},
    {"name": "hist (on zsym)", "path": "engine/hist.py, engine/irlib.py", "serves_properties": ["C01", "C06", "C11", "C12", "C13", "C19", "C20"],
     "kind_free_text": "bounded edit histories over the real IR classes with symbolic operand selectors and payload ints; z3 decides path feasibility, every feasible path is explored and its witness re-executed natively (guard against proxy intolerance)"},
    {"name": "euf (translation validation)", "path": "engine/euf.py, engine/models.py", "serves_properties": ["C05", "C14", "C18"],
     "kind_free_text": "IR models are encoded as z3 terms over uninterpreted functions (content-addressed constants, schema-default-completed attributes, interpreted Identity/functions, alpha-canonical control-flow bodies); the artefact produced by the real transformation is proved output-equivalent to its source for all inputs"},
    {"name": "vthreads", "path": "engine/vthreads.py, engine/fsmodel.py", "serves_properties": ["C08", "C09"],
     "kind_free_text": "the real external_data module is recompiled with threading/concurrent.futures replaced by greenlet-based virtual threads under a deterministic scheduler whose choices are symbolic, and os/shutil/tempfile/open/mmap replaced by an in-memory file system whose every effect is a numbered fault/crash point"},
    {"name": "zsym", "path": "engine/zsym.py", "serves_properties": ["C04", "C07", "C10", "C15"],
     "kind_free_text": "execution of the real functions on z3 Int/Real/String proxies with re-execution DFS over branch decisions; property = SMT query per path"},
]
NOT_APPLICABLE = {}
CHECKS = {
    "C17": dict(
        engine="hist (on zsym)", level="other", design_ref="DESIGN.md section 4 / C17",
        technique="symbolic execution (zsym/z3) of from_proto over malformed protos whose name / enum / tensor-field / structure slots are symbolic integers; oracles: termination, exception-or-consistent IR, no file access, serialization fixpoint",
        text=("Six templates of malformed protos are built directly with protobuf; every slot is a symbolic integer: (names) every name of a two-scope graph with an If body and a function drawn from {'', a, b, c} - dangling, duplicate, empty, shadowing names, cycles and "
              "unsorted orders arise from equal choices, the initializer optionally external; (enums) undefined/unknown tensor and element types, every attribute type against every populated field; (tensors) dims vs payload, several storage fields, negative and "
              "huge dims, 13 absurd external-data entries in pairs; (functions) legacy and native function value-info around IR version 10 with separators in domains/value names and overloads; (structure) missing graph/op_type/branches, duplicate and recursive functions, stray reference attributes, opset-import defects, duplicate inputs/outputs, deep nesting, IR versions 0 / negative / 2^40. "
              "On every path from_proto returns or raises an Exception within the time limit; a returned model satisfies the C01 invariant and the documented producer-graph ownership rule; no file is touched while deserializing or reading name/dtype/shape/size; "
              "to_proto of the result raises or is a fixpoint of deserialize-serialize."),
        note="Trusted: z3; proxies cross-checked per path; file access observed through an audit hook and os.stat/lstat/readlink wrappers (interpreter reads of its own source are ignored). Wire-format mutations, invalid UTF-8 and undeclared enum numbers (rejected by protobuf itself) are outside the claim.",
    ),
    "C02": dict(
        engine="hist (on zsym) + protogen/protonorm", level="other", design_ref="DESIGN.md section 4 / C02",
        technique="symbolic execution (zsym/z3) of deserialize-then-serialize over feature-switched protos built directly with protobuf: feature combination and IR version symbolic; oracle: field-by-field equality of normal forms implementing only the documented normalisations",
        text=("Protos are built directly with protobuf/onnx.helper with one switch per construct named by the property (alias domain, value-info order and unreferenced/initializer value-info, trailing unnamed outputs, explicit defaults, metadata on every carrier, type and "
              "dimension denotations, optional(sequence(tensor))/sequence/sparse types, quantization annotations for every value role and in nested bodies, device configurations, functions with overloads, attribute parameters with/without default and reference attributes, "
              "GRAPH and GRAPHS attributes capturing outer values two scopes up, every tensor storage field incl. external references, 25 element types, every attribute kind with doc strings). Per case the second feature, 'all other features on' and the IR version (3..13) "
              "are symbolic. norm(to_proto(from_proto(p))) == norm(p) field by field, and the tensor / attribute / value-info / function (de)serializer pairs are checked on every sub-message; the same for the serialized family models."),
        note="Trusted: z3; proxies cross-checked per path; the normaliser (only the six documented normalisations); scalars reach protobuf as concrete path values (C boundary) - the fakepb stand-in planned in the design was not built. Sparse tensors, map types and wire-level behaviour are outside the claim.",
    ),
    "C03": dict(
        engine="hist (on zsym)", level="other", design_ref="DESIGN.md section 4 / C03",
        technique="symbolic execution (zsym/z3) of edit-then-serialize histories over a model family; oracle: structural isomorphism with a value bijection after the round trip, serialization idempotent and side-effect free; per-path native re-execution",
        text=("Sources: the 18 family models and the 7 C01 seed states wrapped into models. A symbolic operation of the C01 alphabet (symbolic operands) edits the model, then symbolic variations choose two initializers sharing ONE tensor object, the tensor "
              "implementation (array / proto-backed / lazy / external without file), the IR version 3..13 and metadata/doc strings on every carrier. On every path whose model is serializable and name-resolvable: to_proto twice gives equal protos; the public snapshot of "
              "every object is unchanged by to_proto except initializer tensor names; from_proto(to_proto(m)) is isomorphic to m - node order, identifiers, attributes incl. nested graphs, value names/types/shapes, initializer bytes, doc strings, metadata, functions, opset "
              "imports - with a bijection of value objects so that a use re-wired to a same-named value of another scope is detected."),
        note="Trusted: z3; proxies cross-checked per path; scalars reach protobuf as concrete values of the path (C boundary). Precondition paths (duplicate names in a scope, dangling uses, initializers without tensor) are skipped and counted; one edit per history.",
    ),
    "C18": dict(
        engine="hist (on zsym) + euf", level="translation_validation", design_ref="DESIGN.md section 4 / C18",
        technique="symbolic execution (zsym/z3) of convenience.extract / analyze_implicit_usage over sources with symbolic captures and symbolic cuts; independent backward slice + EUF equivalence (z3) of the extracted graph with the source region",
        text=("Sources: main graphs of 9 family models, two model-local functions, five graph views (also views listing their nodes in another order than the owning graph and a sorted view of an unsorted graph) and a nested family whose body nodes (depth 1 and 2, GRAPH and GRAPHS attributes) capture symbolically selected outer values. The cut is symbolic: one bit per scope value "
              "selects the boundary inputs, every value is tried as first output with a symbolic optional second output, passed by object / by name / in reversed order. On every path: the result shares no graph/node/value with the source; its nodes are exactly the "
              "independently computed backward slice in source order; needed initializers are present with equal bytes; an uncovered non-initializer requirement raises, and nothing else does; z3 proves (EUF) that with the result's inputs bound to the source's "
              "boundary values its outputs equal the source's values for all inputs and operator semantics. analyze_implicit_usage must equal the brute-force capture sets of every nested graph for every capture pattern."),
        note="Trusted: z3; the EUF encoder (shared with C05); proxies cross-checked per path. Sources must be topologically ordered (documented cloner assumption); extraction from a nested body and > 2 outputs are outside the bound.",
    ),
    "C14": dict(
        engine="hist (on zsym) + shadow passes", level="other", design_ref="DESIGN.md section 4 / C14",
        technique="symbolic execution (zsym/z3) of pass invocations over a model family: pass selector, invocation mode, the strip limit of call_onnx_api, which initializers are graph inputs and ONNX-boundary faults are symbolic; contract oracles; per-path native re-execution",
        text=("For each of 22 models every built-in pass (24 configurations) is invoked directly (then re-applied to its fixpoint), functionalized, through a PassManager and through a manager of functional passes applied three times to its own output: returned-model identity per in_place/functional, modified=False => byte-identical "
              "serialization, convergence within #nodes+#values+#functions+2 rounds, the C01 invariant afterwards, topological order kept, result still serializes. For CheckerPass/ShapeInferencePass the size limit above which call_onnx_api strips an initializer "
              "is a SYMBOLIC integer (every stripped/kept split is a z3-decided path), a symbolic mask lists initializers as graph inputs, a symbolic index makes one initializer a lazy tensor that raises during serialization and a symbolic flag makes the "
              "ONNX call raise; on every path names, order and identity of initializers, their tensors, graph inputs/outputs, types and shapes must be exactly as before."),
        note="Trusted: z3; proxies cross-checked per path; the fault-injecting onnx stub delegates to the real functions when no fault is selected. A pass that refuses a model by raising is not judged here (C05 checks what it leaves behind).",
    ),
    "C05": dict(
        engine="euf (translation validation)", level="translation_validation", design_ref="DESIGN.md section 4 / C05",
        technique="translation validation with uninterpreted functions (z3, EUF): output terms of the model before and after the real pass sequence - as object graph and after a serialize/deserialize round trip - proved equal for ALL inputs and ALL operator semantics; sat answers replayed with onnxruntime / the ONNX checker",
        text=("Every built-in pass (20 configurations), every ordered pair of the rewriting passes and recommended triples (thorough: all ordered triples of the 16 rewriting passes) run for real on a family of 22 checker-valid models built from real operators "
              "(duplicate subexpressions differing in one attribute / optional input slot / output count, Identity chains touching inputs, initializers and outputs across scopes, duplicated initializers differing in dtype/shape/bytes, every Constant form, "
              "If/Loop bodies capturing outer values two scopes up, model-local functions with attribute parameters, defaults and nesting, outputs aliasing inputs, unsorted order, name clashes across scopes). After EVERY pass of a sequence the outputs are "
              "encoded as EUF terms and z3 proves position-wise equality with the original for all inputs and all interpretations of the operators; number/order of outputs and non-initializer inputs are compared; a pass that raises must leave an equivalent model. "
              "The ONNX checker is run concretely on every final result (side-oracle)."),
        note="Trusted: z3; the EUF encoder (validated at start-up on hand-made equal/different pairs; attribute defaults from onnx.defs); onnxruntime / onnx.checker only to confirm counterexamples. Operator semantics are abstracted (a stronger claim); models outside the family are outside the bound.",
    ),
    "C08": dict(
        engine="fsmodel + hist (on zsym)", level="fault_enumeration", design_ref="DESIGN.md section 4 / C08",
        technique="symbolic execution (zsym/z3) of the real save path on an in-memory file system whose every effect is a fault/crash point: failing effect, raising tensor/callback, threshold and shard limit are symbolic integers; crash oracle at every effect boundary",
        text=("The real _io.save -> unload_from_model -> _write_external_tensors -> _write_external_data -> _ExternalDataWriter and the real ExternalTensor run on an in-memory POSIX-subset file system. For 10 scenarios (incl. a read-only destination and a second data file with the same relative name under another base directory; faults may be BaseExceptions: KeyboardInterrupt from the callback, SystemExit from a tensor) (no destination, foreign "
              "destination, re-save onto the model's own data file, own + other backing file, symlinked destination, hard-linked destination, sharded, sharded with colliding shard) and their max_workers=2 variants on virtual threads, "
              "the index of the failing file-system effect, of the raising tensor (before writing / after half of its bytes) and of the raising callback, the size threshold and the shard limit are symbolic; on every path and at EVERY effect "
              "boundary (process death) the destination holds old or complete-new bytes and no other pre-existing file changed; after a failure: old bytes, no temporary leftovers, tensors valid and readable; invalid only if replaced."),
        note="Trusted: z3; the file-system model's contracts (atomic replace, in-place truncate/write, mmap follows the inode) - kernel durability/fsync ordering is not modelled; one fault per save in the quick tier, two (the second hitting the handling of the first) in the thorough tier; serde/onnx.save stubbed.",
    ),
    "C09": dict(
        engine="vthreads + hist (on zsym)", level="model_checking", design_ref="DESIGN.md section 4 / C09",
        technique="SMT (z3): inductive invariant of the real _ByteBudget on arbitrary symbolic states; bounded model checking of the real writers on virtual threads (all interleavings at synchronisation points up to a preemption bound; sizes, capacity and failing tensor symbolic)",
        text=("(A) unbounded: the real _ByteBudget.__init__/acquire/release run on z3 integers from an arbitrary state satisfying the invariant (0 <= in_flight <= capacity, oversized flag <=> one oversized token held); z3 proves every outcome "
              "re-establishes it, accounts exactly, blocks only when the documented guard is false and wakes all sleepers; the memory bound follows from the invariant (SMT). (B) bounded: _ExternalDataWriter (parallel) and the shard-driver layer run "
              "unchanged on virtual threads: every interleaving at synchronisation points within the preemption bound, with tensor sizes and capacity as unconstrained symbolic integers (guards decided by z3) and a symbolic failing tensor that raises an Exception or a BaseException (symbolic kind), is "
              "checked for deadlock/lost wake-up, callback once per task and never concurrent, shared tensor evaluated by one thread at a time, materialised bytes <= capacity + largest tensor, each task written once at its offset through its "
              "own thread's handle, preallocation to the serial size, quiescence and full budget release when a failure reaches the caller. One configuration lets a parallel and a serial shard writer share ONE tensor object (lock-order inversions show as deadlock). Large shard configurations are explored delay-bounded (deviations from a round-robin default), sharded by the position of the deviation."),
        note="Trusted: z3; the virtual-thread stand-ins implement the documented contracts of Lock/Condition/ThreadPoolExecutor/as_completed/threading.local (listed in the evidence); context switches only at synchronisation points; more preemptions/tasks/workers than the bound are outside the claim.",
    ),
    "C13": dict(
        engine="hist (on zsym)", level="other", design_ref="DESIGN.md section 4 / C13",
        technique="symbolic execution (zsym/z3) of clone-then-edit histories over the real Cloner / clone() / functionalize; proto equality, identity disjointness, differential snapshot of the untouched copy",
        text=("A model with nested scopes, captured and shared values, a function, metadata on every carrier and device annotations (hand-built and after a proto round trip) is cloned through each entry point "
              "(model/graph/function/subgraph with and without outer values/graph view/functionalized pass/deep copy); the clone must serialize exactly like the original, share no graph/node/value/shape/type/metadata "
              "container, bind its annotations to its own values; then every edit of 28 kinds on every object of either copy (symbolic selectors) must leave the other copy's proto, meta stores and shapes unchanged."),
        note="Trusted: z3; proxies cross-checked per path; observable state = serialized proto + meta + shape dims. One edit per history; objects stored inside meta are shared unless deep_copy (documented).",
    ),
    "C19": dict(
        engine="hist (on zsym)", level="other", design_ref="DESIGN.md section 4 / C19",
        technique="symbolic execution (zsym/z3) of bounded histories of annotation requests interleaved with graph edits, renames, clones and proto round trips",
        text=("shard / set_pipeline_stage / add_/remove_device_configuration(cascade) with axis, num_shards, stage and num_devices as small symbolic integers (invalid values included) are interleaved with renames, "
              "replace_input_with, resize_inputs/outputs, clone and serialize->deserialize at IR 11/13 and serialization at IR 10 (nothing may be emitted, in any scope) - on main-graph nodes and on a node inside an If body capturing outer values, removal by name / object / equal-looking foreign object; a rank-0 operand; histories from a pre-state in which one value is annotated under both configurations on two nodes: after every step each annotation targets a current input/output of its node and a registered configuration, the "
              "library's own check reports nothing, serialized references carry current names, round trips preserve the annotations, and rejected requests change nothing."),
        note="Trusted: z3; proxies cross-checked per path. Histories of length 1 (full ranges) and 2 (near-valid shard first); group maps and shape reassignment are outside the claim.",
    ),
    "C20": dict(
        engine="hist (on zsym)", level="other", design_ref="DESIGN.md section 4 / C20",
        technique="symbolic execution (zsym/z3) of bounded histories run plainly, inside nested journals (with/without exception) and under an independent completion counter; differential oracle",
        text=("Every operation of the C01 alphabet with symbolic operands (multi-element arguments passed as one-shot iterators) is executed without a journal, inside 1-3 nested journals (optionally leaving by exception, caught outside every journal or inside an enclosing one, which must then still be installed and record the next operation) and under an independent wrapper that counts completed "
              "instrumented calls: snapshot and outcomes must be identical, the number of entries must equal the number of completed instrumented operations, after every exit each patched class attribute must be the identical "
              "object it was at that level's entry (read from the classes themselves), entries must not keep objects alive; a Journal object used twice (alone, then nested in another journal) must restore what was installed at its second entry."),
        note="Trusted: z3; proxies cross-checked per path; the set of instrumented attributes is taken from journaling._wrappers.get_original_methods() (names only). One top-level call per journal; hooks are not covered.",
    ),
    "C15": dict(
        engine="zsym (z3 strings) + hist", level="other", design_ref="DESIGN.md section 4 / C15",
        technique="symbolic execution (zsym): name-authority add/remove/re-add histories with explicit names as arbitrary z3 strings; NameFixPass and rename_values over symbolic name-slot assignments with per-path native re-execution",
        text=("Part 1: on a real Graph, histories of up to 4 additions/removals/re-additions of nodes whose explicit node and value names are ARBITRARY strings (z3 sequence theory) are explored; z3 proves every generated name "
              "differs from every name registered or generated before and explicit names are untouched - names shaped like generated ones are found by the solver, not listed. Part 2: NameFixPass on every assignment of colliding "
              "pool names to 6 value and 2 node slots across a nested scope and a function, plus body-level inputs/initializer that no node touches (non-empty, unique per scope incl. enclosing scopes, initializer keys, nothing but names changed, unique names kept, idempotent); "
              "rename_values over all pairs x targets and all rotations (complete or not at all)."),
        note="Trusted: z3; the two name sets of the authority replaced by list-backed symbolic sets; proxies cross-checked by native re-execution. Longer names/histories and custom name generators are outside the bound.",
    ),
    "C16": dict(
        engine="nia (translation validation)", level="translation_validation", design_ref="DESIGN.md section 4 / C16",
        technique="translation validation in non-linear integer/real arithmetic (z3): library result vs reference semantics for ALL positive integer bindings; parser vs Python's grammar on all token strings up to a length bound",
        text=("For ~4k expression trees over + - * // / % neg floor ceil trunc min max (ints on either side) the real operator overloads, simplify(), partial evaluate(), str(), the parser and "
              "serialize_dimension_into are run and their SymPy results proved equal (also for rounded quotients whose divisor is a difference of dimensions; complete bindings must return plain ints) to an independent exact semantics for every binding of the symbols to integers >= 1; every string of <= 5 tokens that "
              "Python accepts over the documented grammar (plus a targeted family of 6-8 token chains of same-precedence operators ending in a negated operand) is parsed and proved to have Python's arithmetic meaning. Counterexample bindings are replayed with exact Fractions."),
        note=("Trusted: z3; the SymPy->z3 translation (validated at start-up against evaluate()); SymPy's exact rational arithmetic in the replay. Queries z3 cannot decide over all integers "
              "(nested symbolic-by-symbolic division) are decided for bindings 1..24 and counted separately in the evidence."),
    ),
    "C11": dict(
        engine="hist (on zsym)", level="other", design_ref="DESIGN.md section 4 / C11",
        technique="symbolic execution (zsym/z3) of bounded interleavings of edits and iterator steps on the real Graph/Function/linked list; rule-based cursor model as oracle; per-path native re-execution",
        text=("Every interleaving (within the bound) of append/extend/insert_before/insert_after/remove/move/sort with next() on four simultaneous iterators (two forward, one backward, one recursive) "
              "is explored from 8 initial sequences; a cursor model stated without link boxes predicts every yielded node; list/len/indexing/reversed/membership must describe the reference sequence "
              "after every edit; after the last edit every iterator is drained and must terminate."),
        note="Trusted: z3; proxies cross-checked per path; after a sort only the generic rules (membership at yield, no error, termination) are asserted. More iterators / longer histories are outside the bound.",
    ),
    "C12": dict(
        engine="hist (on zsym)", level="other", design_ref="DESIGN.md section 4 / C12",
        technique="symbolic execution (zsym/z3) of Graph.sort/Function.sort/TopologicalSortPass over graphs with symbolic dependency edges, captures and initial order; reference-checked result orders",
        text=("All directed graphs (cyclic ones included) on up to 3 nodes and all DAG edge sets on 4 nodes, times every initial permutation, plus nested families (depth 2 and 3) with symbolic captures, "
              "are sorted by the real code: the result must order every graph w.r.t. same-graph producers of everything used in or below each node, keep each graph's node set, leave an already ordered model "
              "untouched, be idempotent and identical for an identical graph, agree between Graph.sort, Function.sort and the pass; a cycle must raise ValueError with no order changed; after a successful sort a symbolic rewiring (no node list touched) followed by another sort must again give a topological order, and the pass must sort the functions of a model too."),
        note="Trusted: z3; the reference needs/order/cycle definitions (DFS over public accessors). Larger graphs and GRAPHS attributes are outside the bound.",
    ),
    "C01": dict(
        engine="hist (on zsym)", level="other", design_ref="DESIGN.md section 4 / C01",
        technique="symbolic execution (zsym/z3) of bounded edit histories over the real IR classes; invariant I(U) on every feasible path; per-path native re-execution",
        text=("From 10 seed states (incl. a value that used to be listed by a graph, a cycle nested under an unsorted root, nodes holding one value at several input positions, an unnamed free value; optional inputs, multi-output nodes, subgraph capture, two graphs, values with every combination of roles, values listed twice, initializers in two scopes, a cycle) "
              "every public mutator of nodes, values, graphs and the three graph collections is driven with symbolic operand selectors and payload ints; z3 decides which paths are feasible and ALL are explored; "
              "after the history the invariant I(U) (uses<->inputs, producer<->outputs, node.graph<->graph contents, role flags<->collections, initializer keys, no producer for inputs/initializers) must hold "
              "whether calls returned or raised. Quick: histories of length 1 plus length 2 for multi-element slice assignment/extend followed by a removal; thorough: length 2 with a symbolic second operation for a stated stride of the (seed, operation) pairs."),
        note="Trusted: z3; the proxies (every path is cross-checked by a native re-execution of its witness); the oracle uses public accessors only. Longer histories and larger states are outside the bound.",
    ),
    "C06": dict(
        engine="hist (on zsym)", level="other", design_ref="DESIGN.md section 4 / C06",
        technique="symbolic execution (zsym/z3) of bounded edit histories; post-condition on raising calls: public snapshot S(U) unchanged; per-path native re-execution",
        text=("Same driver and alphabet as C01: the final call of every history is an arbitrary public mutator with symbolic operands (incl. the position of the offending element in multi-element arguments); "
              "on every feasible path where it raises, the snapshot of every public accessor of every reachable object must equal the snapshot before the call (objects whose accessors fail afterwards - half-built nodes - count as changes). Thorough: one prefix step before the rejected call for a stated stride of (seed, prefix, operation) triples."),
        note="Trusted: z3; proxies cross-checked per path; snapshot = public accessors (names, connections, uses, ownership flags, collections, order, types, shapes, tensors).",
    ),
    "C10": dict(
        engine="zsym (z3 strings) + shadow _core/_io", level="other", design_ref="DESIGN.md section 4 / C10",
        technique="symbolic execution of the real containment check, read entry points and load() over z3 strings with nondeterministic contract-constrained os stubs; SMT (sequence theory + EUF + LIA)",
        text=("The real three-layer containment check runs with base directory and location as symbolic strings and with abspath/realpath/stat as arbitrary functions constrained only by their "
              "contracts; z3 proves: accepted => component-wise lexical containment AND resolved containment AND single link, for all strings within the length bound. Every read entry point is proved "
              "to open the file only after a successful check (check outcome symbolic). The check is proved to run again on EVERY read of the same tensor (link count at the second read symbolic). load() is proved to hand out the model's own directory (dirname, or '.' for a bare name) for every spelling of a file path and to every graph it visits, and (concretely, on a real file) to every external tensor of the model - initializers and attribute tensors in bodies at any depth and in functions; another string is replayed on a real tree whose components before '..' are symlinks. Counterexamples are "
              "realised as real directory trees with symlinks/hard links and read through the real library before being reported."),
        note=("Trusted: z3; the os stubs' contracts (canonical-path shape of abspath/realpath, stat/lstat relation); posixpath.join/dirname transcriptions (validated at start-up). "
              "Kernel symlink/hard-link semantics and Windows paths are not decided."),
    ),
    "C04": dict(
        engine="symnp+shadow (on zsym)", level="other", design_ref="DESIGN.md section 4 / C04",
        technique="symbolic execution of the real tensor code over z3 bit-vector cells + SMT equivalence with the ONNX packing specification (QF_BV, arrays, LIA)",
        text=("Every representation (array-backed incl. Fortran order, packed, proto-backed through raw_data and each typed field, memory-mapped external with and without "
              "copy_file_range, lazy) of every byte-representable element type is executed on symbolic payload bits, symbolic file content, symbolic offset and symbolic destination "
              "position; z3 proves numpy()/tobytes()/tofile() equal to the ONNX packing specification for ALL values, for every element count up to the bound. nbytes and the external "
              "read count are proved for an unbounded symbolic element count. Element-type tables are checked as ground facts."),
        note=("Trusted: z3; the numpy shim (validated against real numpy at start-up); ndarray.tofile/mmap/copy_file_range contracts as listed in the evidence assumptions; "
              "framework adapters, ir.tensor() casting and string tensors are not decided."),
    ),
    "C07": dict(
        engine="zsym", level="other", design_ref="DESIGN.md section 4 / C07",
        technique="symbolic execution of the real layout/shard/threshold/restore functions on z3 proxies + SMT (bounded in tensor count, unbounded in sizes)",
        text=("For every K up to the bound, the real offset loop, sharding functions (raw and safetensors), shard-job assembly, "
              "threshold split and save() restore logic are executed on symbolic integers; z3 proves order, disjointness, alignment, "
              "padding < factor, partition-in-order, shard limit, threshold equivalence and model restoration for ALL sizes/thresholds/limits. "
              "The single-step alignment lemma is proved with every argument symbolic (inductive step for any K)."),
        note=("Trusted: z3; the duck-typed tensor objects expose exactly the attributes the code reads; writer/safetensors library replaced by recorders; "
              "the real file round trip is a composition with C04/C08/C09 and is not decided here."),
    ),
}
