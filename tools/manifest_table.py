SOURCE_COMMITS = []
NOTES = ("Solver-based checking of the real code. Exit codes: 0 holds within the stated bounds, 1 reproduced "
         "violation (VIOLATION line), 2 inconclusive (never reported as success). Bounds, functions encoded, "
         "queries and solver time are in each evidence file. Genuine defects repaired in /repo are listed in "
         "known_findings.json under 'fixed'.")
ENGINES = [
    {"name": "zsym", "path": "engine/zsym.py", "serves_properties": ["C07"],
     "kind_free_text": "execution of the real functions on z3 Int/Real/String proxies with re-execution DFS over branch decisions; property = SMT query per path"},
]
NOT_APPLICABLE = {}
CHECKS = {
    "C07": dict(
        engine="zsym", level="other", design_ref="DESIGN.md section 4 / C07",
        technique="symbolic execution of the real layout/shard/threshold/restore functions on z3 proxies + SMT (bounded in tensor count, unbounded in sizes)",
        text=("For every K up to the bound, the real offset loop, sharding functions (raw and safetensors), shard-job assembly, "
              "threshold split and save() restore logic are executed on symbolic integers; z3 proves order, disjointness, alignment, "
              "padding < factor, partition-in-order, shard limit, threshold equivalence and model restoration for ALL sizes/thresholds/limits. "
              "The single-step alignment lemma is proved with every argument symbolic (inductive step for any K)."),
        note=("Trusted: z3; the duck-typed tensor objects expose exactly the attributes the code reads; writer/safetensors library replaced by recorders; "
              "the real file round trip is a composition with C04/C08/C09 and is not decided here."),
    ),
}
