#!/usr/bin/env python3
"""Run the pinned test suite of a checkout (default /repo) with the verification guard OFF and
compare the set of passing tests with /root/.vp/BASELINE.json (stable_pass).

usage: tools/baseline.py [repo_dir] [-n WORKERS]
exit 0 = every baseline test still passes."""
import json, os, subprocess, sys, tempfile, xml.etree.ElementTree as ET

def main():
    args = sys.argv[1:]
    repo = "/repo"; workers = "8"
    while args:
        a = args.pop(0)
        if a == "-n": workers = args.pop(0)
        else: repo = a
    base = json.load(open("/root/.vp/BASELINE.json"))
    want = set(base["stable_pass"])
    env = dict(os.environ); env.pop("ONNX_IR_PY_VERIF", None)
    # the package is installed editable from /repo/src; make another checkout win
    env["PYTHONPATH"] = os.path.join(repo, "src")
    with tempfile.TemporaryDirectory() as td:
        junit = os.path.join(td, "j.xml")
        cmd = ["/venv/bin/python", "-m", "pytest", "-q", "-p", "no:cacheprovider", "--timeout=900",
               "--continue-on-collection-errors", "-p", "no:randomly", f"--junitxml={junit}"]
        if workers != "0": cmd += ["-n", workers]
        p = subprocess.run(cmd, cwd=repo, env=env, stdout=subprocess.PIPE, stderr=subprocess.STDOUT, text=True)
        tail = p.stdout.strip().splitlines()[-3:]
        passed = set()
        for tc in ET.parse(junit).getroot().iter("testcase"):
            if not any(c.tag in ("failure", "error", "skipped") for c in tc):
                passed.add(f"{tc.get('classname')}::{tc.get('name')}")
    missing = sorted(want - passed)
    if 0 < len(missing) <= 10:
        # timing-sensitive tests (thread pools with sleeps) fail under heavy machine load: retry the few missing ones alone
        retried = []
        for m in missing:
            cls, name = m.split("::", 1)
            parts = cls.split(".")
            node = None
            for k in range(len(parts), 0, -1):
                f = os.path.join(repo, *parts[:k]) + ".py"
                if os.path.exists(f):
                    node = "::".join([os.path.join(*parts[:k]) + ".py"] + parts[k:] + [name])
                    break
            if node is None:
                continue
            r = subprocess.run(["/venv/bin/python", "-m", "pytest", "-q", "-p", "no:cacheprovider", "-p", "no:randomly", node], cwd=repo, env=env,
                               stdout=subprocess.PIPE, stderr=subprocess.STDOUT, text=True)
            if r.returncode == 0:
                passed.add(m)
                retried.append(m)
        if retried:
            print(f"retried alone and passed: {retried}")
        missing = sorted(want - passed)
    print("\n".join(tail))
    print(f"baseline tests: {len(want)}  passing now: {len(want & passed)}  missing: {len(missing)}")
    for m in missing[:40]: print("  MISSING", m)
    return 1 if missing else 0

if __name__ == "__main__":
    sys.exit(main())
