#!/usr/bin/env python3
"""Development-time helper for seeded changes (never part of a registered check).

  tools/mutant.py verify <patch> <demo.py>      confirm in a scratch worktree: demo fails with the patch,
                                                passes without, pinned suite still passes with the patch
  tools/mutant.py check  <patch> <PID> [tier]   apply to /repo, run ./vf check PID, revert
"""
import os, subprocess, sys, tempfile, shutil

def sh(cmd, **kw):
    return subprocess.run(cmd, shell=True, text=True, stdout=subprocess.PIPE, stderr=subprocess.STDOUT, **kw)

def verify(patch, demo):
    wt = tempfile.mkdtemp(prefix="mutv_", dir="/tmp")
    os.rmdir(wt)
    r = sh(f"git -C /repo worktree add --detach {wt} HEAD -q")
    assert r.returncode == 0, r.stdout
    try:
        env = dict(os.environ, PYTHONPATH=f"{wt}/src")
        r0 = sh(f"/venv/bin/python {demo}", env=env, cwd=wt)
        r = sh(f"git -C {wt} apply {patch}")
        if r.returncode:
            print("PATCH DOES NOT APPLY:", r.stdout); return 2
        r1 = sh(f"/venv/bin/python {demo}", env=env, cwd=wt)
        rs = sh(f"python3 /verif/tools/baseline.py {wt} -n 8")
        print(f"demo clean: exit {r0.returncode}; demo patched: exit {r1.returncode}; suite: {'PASS' if rs.returncode == 0 else 'FAIL'}")
        print(rs.stdout.strip().splitlines()[-1])
        if r1.returncode: print("  demo output (patched):", r1.stdout.strip().splitlines()[-1][:300])
        ok = r0.returncode == 0 and r1.returncode != 0 and rs.returncode == 0
        print("VERIFIED" if ok else "NOT VERIFIED")
        return 0 if ok else 1
    finally:
        sh(f"git -C /repo worktree remove --force {wt}")
        shutil.rmtree(wt, ignore_errors=True)

def check(patch, pid, tier="quick"):
    """run ./vf check PID against a scratch worktree of /repo HEAD with the patch applied (the checks import onnx_ir from the
    worktree through PYTHONPATH; /repo itself is not touched, so other runs are not disturbed)"""
    wt = tempfile.mkdtemp(prefix="mutc_", dir="/tmp")
    os.rmdir(wt)
    r = sh(f"git -C /repo worktree add --detach {wt} HEAD -q")
    assert r.returncode == 0, r.stdout
    try:
        r = sh(f"git -C {wt} apply {patch}")
        if r.returncode:
            print("PATCH DOES NOT APPLY:", r.stdout); return 2
        sh("/verif/setup.sh", cwd="/verif")
        env = dict(os.environ, PYTHONPATH=f"{wt}/src:/verif", VERIF_EVIDENCE_DIR="/tmp/verif_mutant_evidence", ONNX_IR_PY_VERIF="1", PYTHONDONTWRITEBYTECODE="1")
        r = sh(f"/verif/.venv/bin/python -m engine.cli check {pid} --tier {tier}", cwd="/verif", env=env)
        lines = [l for l in r.stdout.splitlines() if l.startswith(("VIOLATION", "KNOWN", "INCONCLUSIVE", "[", "  C"))]
        print("\n".join(lines[:12]))
        print("exit", r.returncode)
        return r.returncode
    finally:
        sh(f"git -C /repo worktree remove --force {wt}")
        shutil.rmtree(wt, ignore_errors=True)


def keep(pid, letter, srcdir, tier="quick"):
    """verify + check + store under /verif/seeded/<pid>_<letter>/"""
    import json, io, contextlib
    patch, demo, notes = (os.path.join(srcdir, f"{letter}.{x}") for x in ("patch.diff", "demo.py", "notes.md"))
    buf = io.StringIO()
    with contextlib.redirect_stdout(buf):
        v = verify(patch, demo)
    vout = buf.getvalue()
    print(vout.strip())
    if v != 0:
        print("not kept"); return 1
    buf = io.StringIO()
    with contextlib.redirect_stdout(buf):
        rc = check(patch, pid, tier)
    cout = buf.getvalue()
    print(cout.strip())
    d = f"/verif/seeded/{pid}_{letter}"
    os.makedirs(d, exist_ok=True)
    shutil.copy(patch, f"{d}/patch.diff"); shutil.copy(demo, f"{d}/demo.py")
    if os.path.exists(notes): shutil.copy(notes, f"{d}/notes.md")
    head = sh("git -C /repo rev-parse --short HEAD").stdout.strip()
    meta = {
        "property": pid,
        "breaks": open(notes).read().strip().split("\n\n")[0][:1500] if os.path.exists(notes) else "",
        "needs_to_manifest": "see notes.md (written by the independent sub-agent that produced the change)",
        "verified_on_repo_commit": head,
        "what_i_ran": [
            f"tools/mutant.py verify {letter}.patch.diff {letter}.demo.py  (scratch worktree of /repo HEAD: demo exits 0 clean, non-zero patched; tools/baseline.py: all 3664 baseline tests still pass with the patch)",
            f"tools/mutant.py check {letter}.patch.diff {pid} {tier}  (scratch worktree of /repo HEAD + patch, checks import onnx_ir from it; ./vf check {pid} --tier {tier})",
        ],
        "verify_output": vout.strip().splitlines(),
        "check_exit": rc,
        "check_output": cout.strip().splitlines()[:8],
        "detected": rc == 1,
    }
    json.dump(meta, open(f"{d}/meta.json", "w"), indent=1)
    print("kept in", d, "detected" if rc == 1 else f"NOT detected (exit {rc})")
    return 0

def recheck_all(out="/tmp/recheck_all.log", only=None):
    """Regression of the checks against every kept seeded change, each in its own scratch worktree (the checks import
    onnx_ir from the worktree through PYTHONPATH; /repo is not touched)."""
    import glob, json
    res = []
    for d in sorted(glob.glob("/verif/seeded/*_*")):
        name = os.path.basename(d)
        if only and name not in only:
            continue
        meta = json.load(open(f"{d}/meta.json"))
        if meta.get("superseded"):
            res.append((name, "superseded")); continue
        pid = name.split("_")[0]
        wt = tempfile.mkdtemp(prefix="mutr_", dir="/tmp"); os.rmdir(wt)
        r = sh(f"git -C /repo worktree add --detach {wt} HEAD -q")
        try:
            r = sh(f"git -C {wt} apply {d}/patch.diff")
            if r.returncode:
                res.append((name, "PATCH DOES NOT APPLY")); continue
            env = dict(os.environ, PYTHONPATH=f"{wt}/src:/verif", VERIF_EVIDENCE_DIR="/tmp/verif_mutant_evidence", ONNX_IR_PY_VERIF="1", PYTHONDONTWRITEBYTECODE="1")
            r = sh(f"/verif/.venv/bin/python -m engine.cli check {pid} --tier quick", cwd="/verif", env=env)
            res.append((name, {1: "detected", 0: "NOT DETECTED", 2: "INCONCLUSIVE"}.get(r.returncode, str(r.returncode))))
        finally:
            sh(f"git -C /repo worktree remove --force {wt}")
            shutil.rmtree(wt, ignore_errors=True)
        with open(out, "a") as f:
            f.write(f"{res[-1][0]} {res[-1][1]}\n")
    for n, v in res:
        print(n, v)
    return 0 if all(v in ("detected", "superseded") for _, v in res) else 1


if __name__ == "__main__":
    a = sys.argv[1:]
    sys.exit(verify(a[1], a[2]) if a[0] == "verify" else keep(*a[1:]) if a[0] == "keep" else recheck_all(only=a[1:] or None) if a[0] == "recheck-all" else check(*a[1:]))
