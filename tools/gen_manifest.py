#!/usr/bin/env python3
"""Regenerate /verif/MANIFEST.json from the table below (kept in one place so the manifest is
always valid and not_applicable is always current)."""
import json, os, sys
ROOT = os.path.dirname(os.path.dirname(os.path.abspath(__file__)))
sys.path.insert(0, ROOT)
from tools.manifest_table import CHECKS, NOT_APPLICABLE, ENGINES, NOTES, SOURCE_COMMITS

props = [json.loads(l)["id"] for l in open(os.path.join(ROOT, "properties.jsonl"))]
checks = []
for pid in props:
    if pid not in CHECKS:
        continue
    c = CHECKS[pid]
    checks.append({
        "property_id": pid,
        "quick_cmd": f"./vf check {pid} --tier quick",
        "thorough_cmd": f"./vf check {pid} --tier thorough",
        "evidence_file": f"/verif/evidence/{pid}.json",
        "replay_cmd_template": "./vf replay {path}",
        "engine": c["engine"],
        "level_claimed": {"category": c["level"], "text": c["text"], "design_ref": c["design_ref"]},
        "level_note": c["note"],
        "technique": c["technique"],
    })
na = [{"property_id": p, "reason": NOT_APPLICABLE.get(p, "check not built yet (work in progress; see DESIGN.md section 4 for the planned encoding)")}
      for p in props if p not in CHECKS]
man = {
    "version": 1,
    "setup_cmd": "./setup.sh",
    "hooks": {
        "guard": "ONNX_IR_PY_VERIF",
        "enable": "no source hooks are needed: every substitution (numpy/protobuf/os/threading shims) is done from the harness side by re-binding function globals; the variable is reserved and set by ./vf",
        "baseline_off_cmd": "python3 /verif/tools/baseline.py /repo",
        "source_commits": SOURCE_COMMITS,
        "add_only": True,
    },
    "engines": ENGINES,
    "checks": checks,
    "notes": NOTES,
    "not_applicable": na,
}
json.dump(man, open(os.path.join(ROOT, "MANIFEST.json"), "w"), indent=1)
print(f"{len(checks)} checks, {len(na)} not applicable")
