#!/bin/sh
# Idempotent, offline: build /verif/.venv as an overlay of /venv (the repository's own
# environment) plus crosshair-tool / z3-solver / cvc5 from the local wheelhouse.
set -e
cd "$(dirname "$0")"
VENV=/verif/.venv
STAMP=$VENV/.ok
if [ -f "$STAMP" ] && "$VENV/bin/python" -c "import crosshair, z3, onnx, numpy" 2>/dev/null; then
  exit 0
fi
# serialise concurrent first-time set-ups
exec 9>/verif/.venv.lock
flock 9
if [ -f "$STAMP" ] && "$VENV/bin/python" -c "import crosshair, z3, onnx, numpy" 2>/dev/null; then
  exit 0
fi
rm -rf "$VENV"
/venv/bin/python -m venv "$VENV"
SP=$("$VENV/bin/python" -c "import sysconfig; print(sysconfig.get_paths()['purelib'])")
printf "%s\n%s\n" "/venv/lib/python3.12/site-packages" "/repo/src" > "$SP/_overlay.pth"
PIP_NO_INDEX=1 "$VENV/bin/python" -m pip install -q --no-index --find-links /opt/veriftools/wheels \
    crosshair-tool z3-solver cvc5 >/dev/null
"$VENV/bin/python" -c "import crosshair, z3, cvc5, onnx, numpy, sympy"
touch "$STAMP"
