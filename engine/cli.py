"""./vf command line."""
import argparse
import importlib
import json
import os
import sys

from engine import common


def main(argv=None):
    ap = argparse.ArgumentParser(prog="vf")
    sub = ap.add_subparsers(dest="cmd", required=True)
    c = sub.add_parser("check")
    c.add_argument("pid")
    c.add_argument("--tier", default=os.environ.get("VERIF_TIER") or "quick", choices=["quick", "thorough"])
    r = sub.add_parser("replay")
    r.add_argument("path")
    a = sub.add_parser("all")
    a.add_argument("--tier", default="quick", choices=["quick", "thorough"])
    args = ap.parse_args(argv)
    if args.cmd == "check":
        mod = importlib.import_module(f"harness.{args.pid}")
        return common.run_check(args.pid, args.tier, mod.LEVEL, mod.TECHNIQUE, lambda chk: mod.run(chk, args.tier))
    if args.cmd == "replay":
        rec = json.load(open(args.path))
        mod = importlib.import_module(f"harness.{rec['property']}")
        ok = mod.replay(rec)
        print("REPRODUCED" if ok else "NOT REPRODUCED", rec.get("signature"))
        return 1 if ok else 0
    if args.cmd == "all":
        man = json.load(open(os.path.join(common.ROOT, "MANIFEST.json")))
        worst = 0
        for ch in man["checks"]:
            mod = importlib.import_module(f"harness.{ch['property_id']}")
            rc = common.run_check(ch["property_id"], args.tier, mod.LEVEL, mod.TECHNIQUE,
                                  lambda chk, mod=mod: mod.run(chk, args.tier))
            worst = max(worst, rc)
        return worst


if __name__ == "__main__":
    sys.exit(main())
