"""Shadow copies of onnx_ir modules: the module's *current source* is compiled and executed again into
a fresh module object (not registered in sys.modules); afterwards selected module globals (np, os,
mmap, open, threading, onnx, sibling modules ...) are replaced by shims.  Every function and method
of the shadow module is therefore the real code of /repo, looking its globals up in the patched
namespace."""
from __future__ import annotations

import importlib
import importlib.util
import sys
import types


def load(modname: str, **overrides) -> types.ModuleType:
    real = importlib.import_module(modname)
    path = real.__file__
    src = open(path).read()
    mod = types.ModuleType(modname)
    mod.__file__ = path
    mod.__package__ = modname.rpartition(".")[0] if not hasattr(real, "__path__") else modname
    if hasattr(real, "__path__"):
        mod.__path__ = list(real.__path__)
    mod.__dict__["__builtins__"] = __builtins__
    code = compile(src, path, "exec")
    # dataclasses / typing look the module up in sys.modules while the body runs
    saved = sys.modules.get(modname)
    sys.modules[modname] = mod
    try:
        exec(code, mod.__dict__)
    finally:
        if saved is not None:
            sys.modules[modname] = saved
        else:
            sys.modules.pop(modname, None)
    mod.__dict__.update(overrides)
    mod.__shadow_of__ = real
    return mod
