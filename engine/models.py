"""Model family shared by the pass-level checks (C05, C14, C18, C03 ...): small checker-valid models built
from real ONNX operators (so counterexamples can be replayed numerically), each exercising one of the
graph shapes the properties name.  `build(name)` returns a fresh ir.Model every time.

All tensors are float32 [2, 3] unless stated.  Opset 18, IR version 10.
"""
from __future__ import annotations

import numpy as np

import onnx_ir as ir

F = ir.DataType.FLOAT
OPSET = 18


def fval(name, shape=(2, 3), dtype=F):
    return ir.val(name, dtype, list(shape))


def const(name, arr):
    arr = np.asarray(arr)
    return ir.val(name, ir.DataType(ir.tensor(arr).dtype), list(arr.shape), const_value=ir.tensor(arr, name=name))


def node(op, ins, attrs=None, n_out=1, name=None, outs=None, domain="", overload=""):
    n = ir.node(op, ins, attrs or {}, domain=domain, overload=overload, num_outputs=None if outs else n_out, outputs=outs, name=name)
    for i, o in enumerate(n.outputs):
        if o.name is None:
            o.name = f"{name}_o{i}"
        if o.type is None:
            o.type = ir.TensorType(F)
    return n


def model(inputs, outputs, nodes, inits=(), functions=(), name="g", opsets=None, ir_version=10):
    g = ir.Graph(inputs, outputs, nodes=nodes, initializers=list(inits), opset_imports=opsets or {"": OPSET}, name=name)
    m = ir.Model(g, ir_version=ir_version, functions=list(functions), producer_name="verif")
    if INFER_SHAPES:
        _infer_output_shapes(m)
    return m


INFER_SHAPES = True   # checks that never hand the model to the ONNX checker may switch this construction aid off


def _infer_output_shapes(m):
    """graph outputs need a shape to be checker-valid: take it from ONNX shape inference on the serialized model
    (construction aid only; values that inference cannot type keep what the builder gave them)"""
    import onnx

    try:
        p = onnx.shape_inference.infer_shapes(ir.to_proto(m), data_prop=True)
    except Exception:  # noqa: BLE001
        return
    info = {vi.name: vi for vi in list(p.graph.value_info) + list(p.graph.output) + list(p.graph.input)}
    for g in [m.graph]:
        for v in g.outputs:
            vi = info.get(v.name)
            if vi is not None and vi.type.HasField("tensor_type") and vi.type.tensor_type.HasField("shape"):
                if v.shape is None:
                    v.shape = ir.serde.deserialize_type_proto_for_shape(vi.type)
                if v.type is None:
                    v.type = ir.serde.deserialize_type_proto_for_type(vi.type)


def arr(seed, shape=(2, 3)):
    return (np.arange(int(np.prod(shape)), dtype=np.float32).reshape(shape) + seed) / 4.0


# ---------------------------------------------------------------------------------------------


def m_dup_add():
    x, y = fval("x"), fval("y")
    a = node("Add", [x, y], name="a")
    b = node("Add", [x, y], name="b")
    c = node("Mul", [a.outputs[0], b.outputs[0]], name="c")
    dead = node("Neg", [x], name="dead")
    return model([x, y], [c.outputs[0]], [a, b, c, dead])


def m_dup_attr():
    x, y = fval("x"), fval("y")
    c0 = node("Concat", [x, y], {"axis": 0}, name="c0")
    c1 = node("Concat", [x, y], {"axis": 1}, name="c1")
    c0b = node("Concat", [x, y], {"axis": 0}, name="c0b")
    l1 = node("LeakyRelu", [x], {"alpha": 0.25}, name="l1")
    l2 = node("LeakyRelu", [x], {"alpha": 0.5}, name="l2")
    l3 = node("LeakyRelu", [x], name="l3")            # default alpha 0.01
    l4 = node("LeakyRelu", [x], {"alpha": 0.01}, name="l4")
    s = node("Sum", [l1.outputs[0], l2.outputs[0], l3.outputs[0], l4.outputs[0]], name="s")
    r0 = node("ReduceSum", [c0.outputs[0]], {"keepdims": 0}, name="r0")
    r0b = node("ReduceSum", [c0b.outputs[0]], {"keepdims": 0}, name="r0b")
    r1 = node("ReduceSum", [c1.outputs[0]], {"keepdims": 0}, name="r1")
    t = node("Sum", [r0.outputs[0], r0b.outputs[0], r1.outputs[0]], name="t")
    return model([x, y], [s.outputs[0], t.outputs[0], c1.outputs[0]], [c0, c1, c0b, l1, l2, l3, l4, s, r0, r0b, r1, t])


def m_optional_inputs():
    x = fval("x")
    c = const("c", np.array(0.5, dtype=np.float32))
    lo = node("Clip", [x, c], name="lo")              # min = c
    hi = node("Clip", [x, None, c], name="hi")        # max = c
    lo2 = node("Clip", [x, c, None], name="lo2")      # same as lo with an explicit trailing omission
    s = node("Sum", [lo.outputs[0], hi.outputs[0], lo2.outputs[0]], name="s")
    return model([x], [s.outputs[0], hi.outputs[0]], [lo, hi, lo2, s], [c])


def m_multi_output():
    x = fval("x", (2, 4))
    s1 = node("Split", [x], {"axis": 1, "num_outputs": 2}, n_out=2, name="s1")
    s2 = node("Split", [x], {"axis": 1, "num_outputs": 2}, n_out=2, name="s2")
    s3 = node("Split", [x], {"axis": 0, "num_outputs": 2}, n_out=2, name="s3")
    a = node("Add", [s1.outputs[0], s2.outputs[1]], name="a")
    b = node("Add", [s1.outputs[1], s2.outputs[0]], name="b")
    # TopK-like op with an unused second output next to a twin whose second output is used
    d1 = node("Dropout", [x], n_out=1, name="d1")
    d2 = node("Dropout", [x], n_out=2, name="d2")
    d2.outputs[1].type = ir.TensorType(ir.DataType.BOOL)
    m = node("Cast", [d2.outputs[1]], {"to": int(F)}, name="m")
    e = node("Add", [d1.outputs[0], m.outputs[0]], name="e")
    return model([x], [a.outputs[0], b.outputs[0], s3.outputs[1], e.outputs[0]], [s1, s2, s3, a, b, d1, d2, m, e])


def m_identity():
    x, y = fval("x"), fval("y")
    w = const("w", arr(1))
    i_in_out = node("Identity", [x], name="i_in_out")            # input -> output: must stay
    i_mid = node("Identity", [y], name="i_mid")
    a = node("Add", [i_mid.outputs[0], w], name="a")
    i_out = node("Identity", [a.outputs[0]], name="i_out")        # node -> output: removable, output keeps its name
    i_w = node("Identity", [w], name="i_w")                      # initializer -> output: must stay
    i_chain1 = node("Identity", [a.outputs[0]], name="i_chain1")
    i_chain2 = node("Identity", [i_chain1.outputs[0]], name="i_chain2")
    b = node("Relu", [i_chain2.outputs[0]], name="b")
    return model([x, y], [i_in_out.outputs[0], i_out.outputs[0], i_w.outputs[0], b.outputs[0]],
                 [i_in_out, i_mid, a, i_out, i_w, i_chain1, i_chain2, b], [w])


def m_dup_initializers():
    x = fval("x")
    raw = np.arange(6, dtype=np.float32).reshape(2, 3) + 1
    w1 = const("w1", raw)
    w2 = const("w2", raw.copy())                          # identical
    w3 = const("w3", raw.reshape(3, 2).copy())            # same bytes, other shape
    w4 = const("w4", raw.view(np.int32).copy())           # same bytes, other dtype
    w5 = const("w5", raw + 1)                             # other bytes
    a = node("Add", [x, w1], name="a")
    b = node("Add", [x, w2], name="b")
    c = node("MatMul", [x, w3], name="c")
    d = node("Cast", [w4], {"to": int(F)}, name="d")
    e = node("Add", [x, w5], name="e")
    s = node("Sum", [a.outputs[0], b.outputs[0], d.outputs[0], e.outputs[0]], name="s")
    return model([x], [s.outputs[0], c.outputs[0]], [a, b, c, d, e, s], [w1, w2, w3, w4, w5])


def m_constants():
    x = fval("x", (2, 20))
    big = np.arange(40, dtype=np.float32).reshape(2, 20) / 8.0
    k_big = node("Constant", [], {"value": ir.tensor(big, name="k_big_t")}, name="k_big")
    k_big2 = node("Constant", [], {"value": ir.tensor(big.copy(), name="k_big2_t")}, name="k_big2")
    k_small = node("Constant", [], {"value": ir.tensor(np.array([1.5], dtype=np.float32), name="k_small_t")}, name="k_small")
    k_f = node("Constant", [], {"value_float": 2.5}, name="k_f")
    k_fs = node("Constant", [], {"value_floats": [float(i) / 4 for i in range(20)]}, name="k_fs")
    k_i = node("Constant", [], {"value_int": 1}, name="k_i")
    k_is = node("Constant", [], {"value_ints": [1]}, name="k_is")
    a = node("Add", [x, k_big.outputs[0]], name="a")
    b = node("Add", [a.outputs[0], k_big2.outputs[0]], name="b")
    c = node("Mul", [b.outputs[0], k_small.outputs[0]], name="c")
    d = node("Mul", [c.outputs[0], k_f.outputs[0]], name="d")
    e = node("Add", [d.outputs[0], k_fs.outputs[0]], name="e")
    r = node("ReduceSum", [e.outputs[0], k_is.outputs[0]], {"keepdims": 1}, name="r")
    g = node("Gather", [r.outputs[0], k_i.outputs[0]], {"axis": 0}, name="g")
    for n_, dt in ((k_i, ir.DataType.INT64), (k_is, ir.DataType.INT64)):
        n_.outputs[0].type = ir.TensorType(dt)
    return model([x], [g.outputs[0], k_f.outputs[0]], [k_big, k_big2, k_small, k_f, k_fs, k_i, k_is, a, b, c, d, e, r, g])


def m_if_capture():
    x = fval("x")
    cond = ir.val("cond", ir.DataType.BOOL, [])
    w = const("w", arr(2))
    pre = node("Relu", [x], name="pre")
    # then: captures pre (outer node output), x (outer input) and w (outer initializer); own initializer named like an outer value
    tw = const("pre_o0_w", arr(3))
    t1 = node("Add", [pre.outputs[0], tw], name="t1")
    t2 = node("Mul", [t1.outputs[0], w], name="t2")
    ti = node("Identity", [t2.outputs[0]], name="ti")
    then_g = ir.Graph([], [ti.outputs[0]], nodes=[t1, t2, ti], initializers=[tw], name="then_g")
    ew = const("w_inner", arr(3))                  # same bytes as tw: a duplicate across scopes
    e1 = node("Sub", [x, ew], name="e1")
    e2 = node("Sub", [x, ew], name="e2")           # duplicate inside a body
    e3 = node("Add", [e1.outputs[0], e2.outputs[0]], name="e3")
    else_g = ir.Graph([], [e3.outputs[0]], nodes=[e1, e2, e3], initializers=[ew], name="else_g")
    iff = node("If", [cond], {"then_branch": then_g, "else_branch": else_g}, name="iff")
    post = node("Add", [iff.outputs[0], pre.outputs[0]], name="post")
    return model([x, cond], [post.outputs[0]], [pre, iff, post], [w])


def m_nested_if():
    x = fval("x")
    c1 = ir.val("c1", ir.DataType.BOOL, [])
    c2 = ir.val("c2", ir.DataType.BOOL, [])
    a = node("Abs", [x], name="a")
    b = node("Neg", [x], name="b")
    # inner bodies capture values from two levels up
    ii_t = node("Add", [a.outputs[0], b.outputs[0]], name="ii_t")
    inner_then = ir.Graph([], [ii_t.outputs[0]], nodes=[ii_t], name="inner_then")
    ii_e = node("Identity", [b.outputs[0]], name="ii_e")
    inner_else = ir.Graph([], [ii_e.outputs[0]], nodes=[ii_e], name="inner_else")
    mid = node("Exp", [a.outputs[0]], name="mid")
    inner_if = node("If", [c2], {"then_branch": inner_then, "else_branch": inner_else}, name="inner_if")
    o_t = node("Mul", [inner_if.outputs[0], mid.outputs[0]], name="o_t")
    outer_then = ir.Graph([], [o_t.outputs[0]], nodes=[mid, inner_if, o_t], name="outer_then")
    o_e = node("Relu", [x], name="o_e")
    outer_else = ir.Graph([], [o_e.outputs[0]], nodes=[o_e], name="outer_else")
    outer_if = node("If", [c1], {"then_branch": outer_then, "else_branch": outer_else}, name="outer_if")
    unused = node("Sqrt", [a.outputs[0]], name="unused")
    return model([x, c1, c2], [outer_if.outputs[0]], [a, b, unused, outer_if])


def m_loop():
    x = fval("x")
    trip = const("trip", np.array(3, dtype=np.int64))
    cond0 = const("cond0", np.array(True))
    scale = node("Exp", [x], name="scale")
    it = ir.val("it", ir.DataType.INT64, [])
    cin = ir.val("cin", ir.DataType.BOOL, [])
    acc = fval("acc")
    step = node("Add", [acc, scale.outputs[0]], name="step")         # captures an outer node output
    step2 = node("Add", [acc, scale.outputs[0]], name="step2")       # duplicate in the body
    both = node("Add", [step.outputs[0], step2.outputs[0]], name="both")
    cout = node("Identity", [cin], name="cout")
    cout.outputs[0].type = ir.TensorType(ir.DataType.BOOL)
    body = ir.Graph([it, cin, acc], [cout.outputs[0], both.outputs[0]], nodes=[step, step2, both, cout], name="body")
    loop = node("Loop", [trip, cond0, x], {"body": body}, name="loop")
    loop.outputs[0].shape = ir.Shape([2, 3])
    return model([x], [loop.outputs[0]], [scale, loop], [trip, cond0])


def _fn_scale():
    # scale<alpha=2.0, beta>(x) = LeakyRelu<alpha=@alpha>(x) * ... ; beta has no default
    fx = fval("fx")
    lr = ir.node("LeakyRelu", [fx], name="f_lr")
    lr.attributes["alpha"] = ir.RefAttr("alpha", "alpha", ir.AttributeType.FLOAT)
    lr.outputs[0].name = "f_lr_o"
    el = ir.node("Elu", [lr.outputs[0]], name="f_el")
    el.attributes["alpha"] = ir.RefAttr("alpha", "beta", ir.AttributeType.FLOAT)
    el.outputs[0].name = "f_el_o"
    g = ir.Graph([fx], [el.outputs[0]], nodes=[lr, el], opset_imports={"": OPSET}, name="scale_body")
    return ir.Function("local", "scale", graph=g, attributes=[ir.AttrFloat32("alpha", 2.0), ir.Attr("beta", ir.AttributeType.FLOAT, None)])


def _fn_outer():
    # outer<slope>(x) = scale<alpha=@slope, beta=0.5>(x) + scale<beta=1.5>(x)   (second call uses the default alpha)
    ox = fval("ox")
    c1 = ir.node("scale", [ox], domain="local", name="o_c1")
    c1.attributes["alpha"] = ir.RefAttr("alpha", "slope", ir.AttributeType.FLOAT)
    c1.attributes["beta"] = ir.AttrFloat32("beta", 0.5)
    c1.outputs[0].name = "o_c1_o"
    c2 = ir.node("scale", [ox], {"beta": 1.5}, domain="local", name="o_c2")
    c2.outputs[0].name = "o_c2_o"
    s = ir.node("Add", [c1.outputs[0], c2.outputs[0]], name="o_s")
    s.outputs[0].name = "o_s_o"
    g = ir.Graph([ox], [s.outputs[0]], nodes=[c1, c2, s], opset_imports={"": OPSET, "local": 1}, name="outer_body")
    return ir.Function("local", "outer", graph=g, attributes=[ir.Attr("slope", ir.AttributeType.FLOAT, None)])


def m_functions():
    x = fval("x")
    a = node("outer", [x], {"slope": 0.25}, domain="local", name="a")
    b = node("scale", [x], {"alpha": 0.75, "beta": 1.0}, domain="local", name="b")
    c = node("scale", [x], {"beta": 1.0}, domain="local", name="c")         # default alpha
    s = node("Sum", [a.outputs[0], b.outputs[0], c.outputs[0]], name="s")
    unused_fn_x = fval("ux")
    un = ir.node("Neg", [unused_fn_x], name="u_n")
    un.outputs[0].name = "u_n_o"
    unused = ir.Function("local", "never_called", graph=ir.Graph([unused_fn_x], [un.outputs[0]], nodes=[un], opset_imports={"": OPSET}, name="nc"), attributes=[])
    return model([x], [s.outputs[0]], [a, b, c, s], functions=[_fn_scale(), _fn_outer(), unused], opsets={"": OPSET, "local": 1, "unused.domain": 3})


def m_function_old_opset():
    """a function that imports an older (but compatible) opset than the model"""
    x = fval("x")
    fx = fval("fx")
    sm = ir.node("Softmax", [fx], name="f_sm")
    sm.outputs[0].name = "f_sm_o"
    g = ir.Graph([fx], [sm.outputs[0]], nodes=[sm], opset_imports={"": 13}, name="old_body")
    fn = ir.Function("local", "old_softmax", graph=g, attributes=[])
    a = node("old_softmax", [x], domain="local", name="a")
    b = node("Softmax", [x], name="b")            # opset 18: default axis -1
    s = node("Add", [a.outputs[0], b.outputs[0]], name="s")
    return model([x], [s.outputs[0]], [a, b, s], functions=[fn], opsets={"": OPSET, "local": 1})


def m_alias_outputs():
    x, y = fval("x"), fval("y")
    a = node("Add", [x, y], name="a")
    return model([x, y], [x, a.outputs[0], a.outputs[0], y], [a])


def m_unsorted():
    x = fval("x")
    a = node("Relu", [x], name="a")
    b = node("Exp", [a.outputs[0]], name="b")
    c = node("Add", [a.outputs[0], b.outputs[0]], name="c")
    d = node("Neg", [c.outputs[0]], name="d")
    d.outputs[0].shape = ir.Shape([2, 3])
    b.outputs[0].shape = ir.Shape([2, 3])
    return model([x], [d.outputs[0], b.outputs[0]], [d, c, a, b])


def m_random():
    x = fval("x")
    r1 = node("RandomNormalLike", [x], name="r1")
    r2 = node("RandomNormalLike", [x], name="r2")
    s = node("Sub", [r1.outputs[0], r2.outputs[0]], name="s")
    return model([x], [s.outputs[0]], [r1, r2, s])


def m_init_inputs():
    """initializers that are also graph inputs (overridable defaults) next to plain ones; subgraph initializer that is a body input"""
    x = fval("x")
    w = const("w", arr(5))
    v = const("v", arr(6))
    a = node("Add", [x, w], name="a")
    b = node("Mul", [a.outputs[0], v], name="b")
    return model([x, w], [b.outputs[0]], [a, b], [w, v])


def m_name_clash():
    """names that collide across scopes / with generated names: fodder for NameFix, lifting and inlining"""
    x = fval("x")
    cond = ir.val("cond", ir.DataType.BOOL, [])
    w = const("w", arr(1))
    a = node("Add", [x, w], name="node_0")
    a.outputs[0].name = "val_0"
    iw = const("w", arr(2))                       # subgraph initializer with the name of an outer initializer
    t = node("Add", [a.outputs[0], iw], name="node_1")
    t.outputs[0].name = "t_out"
    then_g = ir.Graph([], [t.outputs[0]], nodes=[t], initializers=[iw], name="then_g")
    iw2 = const("val_0_w", arr(2))
    e = node("Sub", [a.outputs[0], iw2], name="node_0_1")
    e.outputs[0].name = "e_out"
    else_g = ir.Graph([], [e.outputs[0]], nodes=[e], initializers=[iw2], name="else_g")
    iff = node("If", [cond], {"then_branch": then_g, "else_branch": else_g}, name="node_2")
    iff.outputs[0].name = "out"
    return model([x, cond], [iff.outputs[0]], [a, iff], [w])


def m_bare_initializers():
    """initializers whose values carry no type/shape of their own, one of them without data, sizes around 1 KB"""
    x = fval("x", (2, 3))
    w_small = ir.Value(name="w_small", const_value=ir.tensor(arr(1), name="w_small"))
    w_big = ir.Value(name="w_big", const_value=ir.tensor(np.arange(300, dtype=np.float32).reshape(100, 3), name="w_big"))
    w_mid = const("w_mid", np.arange(6, dtype=np.float32).reshape(3, 2))
    a = node("Add", [x, w_small], name="a")
    b = node("MatMul", [w_big, w_mid], name="b")
    c = node("MatMul", [a.outputs[0], w_mid], name="c")
    return model([x], [c.outputs[0], b.outputs[0]], [a, b, c], [w_small, w_big, w_mid])


def m_shadow_input():
    """a main-graph input that no top-level node consumes (captured by the else-branch only) and a then-branch
    initializer that shadows its NAME; plus an unused main-graph input"""
    x = fval("x")
    cond = ir.val("cond", ir.DataType.BOOL, [])
    k = fval("k")
    unused_in = fval("spare")
    kc = const("k", arr(7))                                  # shadows the outer input name inside the then-branch
    sc = const("spare", arr(8))                              # shadows the unused input
    t1 = node("Add", [kc, sc], name="t1")
    then_g = ir.Graph([], [t1.outputs[0]], nodes=[t1], initializers=[kc, sc], name="then_g")
    e1 = node("Neg", [k], name="e1")                          # captures the outer input
    else_g = ir.Graph([], [e1.outputs[0]], nodes=[e1], name="else_g")
    iff = node("If", [cond], {"then_branch": then_g, "else_branch": else_g}, name="iff")
    out = node("Add", [iff.outputs[0], x], name="out")
    return model([x, cond, k, unused_in], [out.outputs[0]], [iff, out])


def m_branch_returns_initializer():
    """an If branch that returns one of its own initializers directly, next to a computed output and dead code"""
    x = fval("x")
    cond = ir.val("cond", ir.DataType.BOOL, [])
    bias = const("bias", arr(4))
    tb = const("tb", arr(5))
    t1 = node("Add", [x, tb], name="t1")
    dead = node("Neg", [x], name="t_dead")
    then_g = ir.Graph([], [t1.outputs[0], bias], nodes=[t1, dead], initializers=[bias, tb], name="then_g")
    e1 = node("Relu", [x], name="e1")
    e2 = node("Abs", [x], name="e2")
    else_g = ir.Graph([], [e1.outputs[0], e2.outputs[0]], nodes=[e1, e2], name="else_g")
    iff = node("If", [cond], {"then_branch": then_g, "else_branch": else_g}, n_out=2, name="iff")
    s = node("Add", [iff.outputs[0], iff.outputs[1]], name="s")
    return model([x, cond], [s.outputs[0]], [iff, s])


def m_batchnorm():
    """BatchNormalization with an explicit training_mode and only its first output; one with unused named extra outputs"""
    x = fval("x", (1, 2, 3))
    sc = const("bn_scale", np.ones(2, dtype=np.float32))
    bi = const("bn_bias", np.zeros(2, dtype=np.float32))
    mean = const("bn_mean", np.zeros(2, dtype=np.float32))
    var = const("bn_var", np.ones(2, dtype=np.float32))
    bn1 = node("BatchNormalization", [x, sc, bi, mean, var], {"training_mode": 0, "epsilon": 1e-3}, name="bn1")
    bn2 = node("BatchNormalization", [bn1.outputs[0], sc, bi, mean, var], {"training_mode": 1}, n_out=3, name="bn2")
    r = node("Relu", [bn2.outputs[0]], name="r")
    return model([x], [r.outputs[0]], [bn1, bn2, r], [sc, bi, mean, var])


def m_batchnorm_inference():
    """a single live BatchNormalization with an explicit training_mode=0 and only its first output: nothing else is removable"""
    x = fval("x", (1, 2, 3))
    sc = const("bn_scale", np.ones(2, dtype=np.float32))
    bi = const("bn_bias", np.zeros(2, dtype=np.float32))
    mean = const("bn_mean", np.zeros(2, dtype=np.float32))
    var = const("bn_var", np.ones(2, dtype=np.float32))
    bn = node("BatchNormalization", [x, sc, bi, mean, var], {"training_mode": 0}, name="bn")
    return model([x], [bn.outputs[0]], [bn], [sc, bi, mean, var])


def m_graphs_attr():
    """a custom operator carrying a LIST of bodies (GRAPHS attribute); the bodies capture outer values and hold duplicates"""
    x, y = fval("x"), fval("y")
    pre = node("Relu", [x], name="pre")
    b1a = node("Add", [pre.outputs[0], y], name="b1a")
    b1b = node("Add", [pre.outputs[0], y], name="b1b")
    b1c = node("Mul", [b1a.outputs[0], b1b.outputs[0]], name="b1c")
    body1 = ir.Graph([], [b1c.outputs[0]], nodes=[b1a, b1b, b1c], name="body1")
    bw = const("bw", arr(9))
    b2a = node("Sub", [x, bw], name="b2a")
    b2i = node("Identity", [b2a.outputs[0]], name="b2i")
    body2 = ir.Graph([], [b2i.outputs[0]], nodes=[b2a, b2i], initializers=[bw], name="body2")
    multi = ir.Node("custom.ops", "Branches", [y], [ir.AttrGraphs("branches", [body1, body2])], num_outputs=1, name="multi")
    multi.outputs[0].name = "multi_o0"
    multi.outputs[0].type = ir.TensorType(F)
    multi.outputs[0].shape = ir.Shape([2, 3])
    out = node("Add", [multi.outputs[0], pre.outputs[0]], name="out")
    return model([x, y], [out.outputs[0]], [pre, multi, out], opsets={"": OPSET, "custom.ops": 1})


def m_function_falsy_defaults():
    """attribute parameters whose declared default is falsy (0 / 0.0): soft<axis=0>(x) = Softmax<axis=@axis>(x);
    outer<slope=0.0>(x) = inner<alpha=@slope>(x); inner<alpha=0.5>(x) = LeakyRelu<alpha=@alpha>(x); call sites omit them"""
    x = fval("x")
    sx = fval("sx")
    sm = ir.node("Softmax", [sx], name="s_sm")
    sm.attributes["axis"] = ir.RefAttr("axis", "axis", ir.AttributeType.INT)
    sm.outputs[0].name = "s_sm_o"
    soft = ir.Function("local", "soft", graph=ir.Graph([sx], [sm.outputs[0]], nodes=[sm], opset_imports={"": OPSET}, name="soft_body"),
                       attributes=[ir.AttrInt64("axis", 0)])
    ix = fval("ix")
    lr = ir.node("LeakyRelu", [ix], name="i_lr")
    lr.attributes["alpha"] = ir.RefAttr("alpha", "alpha", ir.AttributeType.FLOAT)
    lr.outputs[0].name = "i_lr_o"
    inner = ir.Function("local", "inner", graph=ir.Graph([ix], [lr.outputs[0]], nodes=[lr], opset_imports={"": OPSET}, name="inner_body"),
                        attributes=[ir.AttrFloat32("alpha", 0.5)])
    ox = fval("ox")
    call = ir.node("inner", [ox], domain="local", name="o_call")
    call.attributes["alpha"] = ir.RefAttr("alpha", "slope", ir.AttributeType.FLOAT)
    call.outputs[0].name = "o_call_o"
    outer = ir.Function("local", "outer0", graph=ir.Graph([ox], [call.outputs[0]], nodes=[call], opset_imports={"": OPSET, "local": 1}, name="outer0_body"),
                        attributes=[ir.AttrFloat32("slope", 0.0)])
    a = node("soft", [x], domain="local", name="a")
    b = node("outer0", [x], domain="local", name="b")
    c = node("soft", [x], {"axis": 1}, domain="local", name="c")
    s_ = node("Sum", [a.outputs[0], b.outputs[0], c.outputs[0]], name="s")
    return model([x], [s_.outputs[0]], [a, b, c, s_], functions=[soft, inner, outer], opsets={"": OPSET, "local": 1})


def m_const_dtypes():
    """small Constant nodes with equal shape and equal raw bytes but different element types"""
    x = fval("x", (2,))
    k_i8 = node("Constant", [], {"value": ir.tensor(np.array([-1, 2], dtype=np.int8), name="k_i8_t")}, name="k_i8")
    k_u8 = node("Constant", [], {"value": ir.tensor(np.array([255, 2], dtype=np.uint8), name="k_u8_t")}, name="k_u8")
    k_i32 = node("Constant", [], {"value": ir.tensor(np.zeros(2, dtype=np.int32), name="k_i32_t")}, name="k_i32")
    k_f32 = node("Constant", [], {"value": ir.tensor(np.zeros(2, dtype=np.float32), name="k_f32_t")}, name="k_f32")
    for n_, dt in ((k_i8, ir.DataType.INT8), (k_u8, ir.DataType.UINT8), (k_i32, ir.DataType.INT32)):
        n_.outputs[0].type = ir.TensorType(dt)
    c1 = node("Cast", [k_i8.outputs[0]], {"to": int(F)}, name="c1")
    c2 = node("Cast", [k_u8.outputs[0]], {"to": int(F)}, name="c2")
    c3 = node("Cast", [k_i32.outputs[0]], {"to": int(F)}, name="c3")
    s_ = node("Sum", [x, c1.outputs[0], c2.outputs[0], c3.outputs[0], k_f32.outputs[0]], name="s")
    m_ = node("Mul", [c1.outputs[0], c2.outputs[0]], name="m")
    return model([x], [s_.outputs[0], m_.outputs[0]], [k_i8, k_u8, k_i32, k_f32, c1, c2, c3, s_, m_])


MODELS = {
    "dup_add": m_dup_add, "dup_attr": m_dup_attr, "optional_inputs": m_optional_inputs, "multi_output": m_multi_output,
    "identity": m_identity, "dup_initializers": m_dup_initializers, "constants": m_constants, "if_capture": m_if_capture,
    "nested_if": m_nested_if, "loop": m_loop, "functions": m_functions, "function_old_opset": m_function_old_opset,
    "alias_outputs": m_alias_outputs, "unsorted": m_unsorted, "random": m_random, "init_inputs": m_init_inputs, "name_clash": m_name_clash,
    "bare_initializers": m_bare_initializers, "shadow_input": m_shadow_input, "branch_returns_initializer": m_branch_returns_initializer,
    "batchnorm": m_batchnorm, "batchnorm_inference": m_batchnorm_inference, "graphs_attr": m_graphs_attr, "function_falsy_defaults": m_function_falsy_defaults, "const_dtypes": m_const_dtypes,
}


def build(name) -> ir.Model:
    return MODELS[name]()
