"""Verdict protocol, evidence and known-findings plumbing shared by every check.

exit 0  every obligation discharged inside the stated bounds
exit 1  a solver counterexample that reproduced concretely against /repo  (VIOLATION line)
exit 2  inconclusive (timeout / unknown / unsupported construct / non-reproducing model / vacuity)
"""
from __future__ import annotations

import json
import os
import sys
import time
import traceback

ROOT = os.path.dirname(os.path.dirname(os.path.abspath(__file__)))
EXIT_OK, EXIT_VIOLATION, EXIT_INCONCLUSIVE = 0, 1, 2


class Inconclusive(Exception):
    """The machinery could not decide (never reported as success or as a violation)."""


def _jsonable(x):
    try:
        json.dumps(x)
        return x
    except Exception:
        if isinstance(x, dict):
            return {str(k): _jsonable(v) for k, v in x.items()}
        if isinstance(x, (list, tuple, set)):
            return [_jsonable(v) for v in x]
        return repr(x)


class Check:
    """One run of one property's check."""

    def __init__(self, pid: str, tier: str, level: str, technique: str):
        self.pid = pid
        self.tier = tier
        self.level = level
        self.technique = technique
        self.seed = int(os.environ.get("VERIF_SEED", "0") or 0)
        self.t0 = time.time()
        self.obligations = 0          # solver-decided assertions
        self.discharged = 0
        self.queries = 0              # individual solver calls (feasibility + property)
        self.paths = 0                # symbolic paths executed through real code
        self.solver_s = 0.0
        self.cases: set = set()       # distinct non-trivial cases (hashable descriptions)
        self.evaluations = 0
        self.samples: list = []
        self.assumptions: list[str] = []
        self.functions: list[str] = []
        self.bounds: dict = {}
        self.not_decided: list[str] = []
        self.vacuity: list[str] = []  # reachability twins that came back violated, as they must
        self.validation: list[str] = []  # encoding-validation steps performed
        self.violations: list[dict] = []
        self.known_hits: list[dict] = []
        self.inconclusive: list[str] = []
        self.extra: dict = {}
        self._pending: list = []      # violations found in a worker process, reported by the parent
        self.is_worker = False
        kf = json.load(open(os.path.join(ROOT, "known_findings.json")))
        self._known = [f for f in kf.get("findings", []) if f.get("property") == pid]

    # ---- bookkeeping -------------------------------------------------------------------------
    def fn(self, *names):
        for n in names:
            if n not in self.functions:
                self.functions.append(n)

    def assume(self, *texts):
        for t in texts:
            if t not in self.assumptions:
                self.assumptions.append(t)

    def sample(self, s, cap=12):
        if len(self.samples) < cap:
            self.samples.append(_jsonable(s))

    def case(self, key):
        """Count one explored case; `key` identifies it for the distinct count."""
        self.evaluations += 1
        self.cases.add(key if isinstance(key, (str, int, tuple)) else repr(key))

    def add_stats(self, st: dict):
        self.paths += st.get("paths", 0)
        self.queries += st.get("queries", 0)
        self.solver_s += st.get("solver_s", 0.0)
        self.obligations += st.get("obligations", 0)
        self.discharged += st.get("discharged", 0)

    def vacuity_ok(self, name):
        self.vacuity.append(name)

    def note_inconclusive(self, why: str):
        self.inconclusive.append(why)
        print(f"INCONCLUSIVE property={self.pid} {why}", flush=True)

    # ---- violations ----------------------------------------------------------------------------
    def violation(self, signature: str, what: str, replay: dict):
        """Report a *reproduced* counterexample. `signature` names the failing call site / input
        class; a known finding suppresses exactly its own signature."""
        if self.is_worker:
            self._pending.append((signature, what, _jsonable(replay)))
            return
        for k in self._known:
            if k.get("signature") == signature:
                if not any(h["signature"] == signature for h in self.known_hits):
                    self.known_hits.append({"signature": signature, "what": k.get("what", what)})
                    print(f"KNOWN-FINDING: property={self.pid} {k.get('what', what)}", flush=True)
                return
        if any(v["signature"] == signature for v in self.violations):
            return
        # development runs against patched trees (VERIF_EVIDENCE_DIR set) keep their replay files next to their evidence
        rdir = os.path.join(os.environ.get("VERIF_EVIDENCE_DIR") or ROOT, "replay")
        os.makedirs(rdir, exist_ok=True)
        path = os.path.join(rdir, f"{self.pid}_{len(self.violations)}.json")
        rec = {"property": self.pid, "signature": signature, "what": what, **_jsonable(replay)}
        with open(path, "w") as f:
            json.dump(rec, f, indent=1)
        self.violations.append({"signature": signature, "what": what, "replay": path})
        print(f"VIOLATION property={self.pid} replay={path}", flush=True)
        print(f"  {signature}: {what}", flush=True)

    # ---- sharding over processes -------------------------------------------------------------
    def export(self) -> dict:
        return dict(obligations=self.obligations, discharged=self.discharged, queries=self.queries, paths=self.paths,
                    solver_s=self.solver_s, cases=list(self.cases), evaluations=self.evaluations, samples=self.samples,
                    vacuity=self.vacuity, validation=self.validation, inconclusive=self.inconclusive,
                    pending=self._pending, functions=self.functions, assumptions=self.assumptions,
                    not_decided=self.not_decided, extra=_jsonable(self.extra))

    def merge(self, d: dict):
        self.obligations += d["obligations"]
        self.discharged += d["discharged"]
        self.queries += d["queries"]
        self.paths += d["paths"]
        self.solver_s += d["solver_s"]
        self.cases.update(d["cases"])
        self.evaluations += d["evaluations"]
        for smp in d["samples"]:
            self.sample(smp)
        for v in d["vacuity"]:
            if v not in self.vacuity:
                self.vacuity.append(v)
        for v in d["validation"]:
            if v not in self.validation:
                self.validation.append(v)
        for w in d["inconclusive"]:
            self.inconclusive.append(w)
        self.fn(*d["functions"])
        self.assume(*d["assumptions"])
        for nd in d["not_decided"]:
            if nd not in self.not_decided:
                self.not_decided.append(nd)
        for k, v in d["extra"].items():
            if isinstance(v, (int, float)) and not isinstance(v, bool) and isinstance(self.extra.get(k), (int, float)):
                self.extra[k] += v
            elif isinstance(v, list) and isinstance(self.extra.get(k), list):
                self.extra[k] = (self.extra[k] + v)[:40]
            else:
                self.extra.setdefault(k, v)
        for sig, what, replay in d["pending"]:
            self.violation(sig, what, replay)

    # ---- finish --------------------------------------------------------------------------------
    def finish(self) -> int:
        wall = time.time() - self.t0
        cov = {
            "explanation": (
                f"{self.technique}. Every obligation is an SMT query (or a CrossHair path "
                "exploration) over the real functions listed in functions_encoded, regenerated from "
                "/repo on this run; 'discharged' counts queries answered unsat / contracts confirmed "
                "over all paths inside 'bounds'. Nothing outside 'bounds' is claimed."
            ),
            "obligations": self.obligations,
            "discharged": self.discharged,
            "solver_queries": self.queries,
            "symbolic_paths": self.paths,
            "solver_time_s": round(self.solver_s, 3),
            "evaluations": max(self.evaluations, self.obligations),
            "distinct_nontrivial": len(self.cases),
            "rule": self.extra.pop("rule", "one case per distinct (harness, bound parameters) obligation group"),
            "samples": self.samples or ["<none>"],
            "functions_encoded": self.functions,
            "bounds": _jsonable(self.bounds),
            "not_decided": self.not_decided,
            "vacuity_witnesses": self.vacuity,
            "encoding_validation": self.validation,
            "known_findings_hit": self.known_hits,
            "inconclusive": self.inconclusive,
            "checker_cmd": f"./vf check {self.pid} --tier {self.tier}",
            "trusted_base": ["z3 5.1 (z3-solver wheel)", "CPython 3.12", "the stubs listed under assumptions"],
            "exhaustive": not self.inconclusive,
        }
        cov.update(_jsonable(self.extra))
        ev = {
            "property_id": self.pid,
            "tier": self.tier,
            "seed": self.seed,
            "level": self.level,
            "coverage": cov,
            "assumptions": self.assumptions,
            "wall_s": round(wall, 2),
            "violations": len(self.violations),
        }
        evdir = os.environ.get("VERIF_EVIDENCE_DIR") or os.path.join(ROOT, "evidence")   # development runs on patched trees write elsewhere
        os.makedirs(evdir, exist_ok=True)
        with open(os.path.join(evdir, f"{self.pid}.json"), "w") as f:
            json.dump(ev, f, indent=1)
        status = "VIOLATED" if self.violations else ("INCONCLUSIVE" if self.inconclusive else "HOLDS")
        print(
            f"[{self.pid}/{self.tier}] {status}: obligations={self.obligations} discharged={self.discharged} "
            f"paths={self.paths} queries={self.queries} solver={self.solver_s:.1f}s wall={wall:.1f}s "
            f"cases={len(self.cases)} known={len(self.known_hits)}",
            flush=True,
        )
        if self.violations:
            return EXIT_VIOLATION
        if self.inconclusive:
            return EXIT_INCONCLUSIVE
        return EXIT_OK


BUDGET_S = {"quick": 900, "thorough": 7200}


def set_deadline(tier):
    from engine import zsym

    budget = float(os.environ.get("VERIF_BUDGET_S", BUDGET_S[tier]))
    zsym.DEADLINE = time.time() + budget
    return zsym.DEADLINE


def run_check(pid: str, tier: str, level: str, technique: str, body) -> int:
    """Run `body(check)`; map exceptions to the verdict protocol."""
    from engine import zsym

    chk = Check(pid, tier, level, technique)
    set_deadline(tier)
    try:
        body(chk)
    except (Inconclusive, zsym.TimeBudget) as e:
        chk.note_inconclusive(str(e))
    except Exception as e:  # harness error: never a verdict
        traceback.print_exc()
        chk.note_inconclusive(f"harness error: {type(e).__name__}: {e}")
    return chk.finish()


def _worker(args):
    pid, tier, level, technique, modname, funcname, item = args
    import importlib

    chk = Check(pid, tier, level, technique)
    chk.is_worker = True
    from engine import zsym

    try:
        getattr(importlib.import_module(modname), funcname)(chk, tier, item)
    except (Inconclusive, zsym.TimeBudget) as e:
        chk.inconclusive.append(f"shard {item!r}: {e}")
    except Exception as e:
        traceback.print_exc()
        chk.inconclusive.append(f"harness error in shard {item!r}: {type(e).__name__}: {e}")
    return chk.export()


def parallel(chk: Check, modname: str, funcname: str, items, nproc=None):
    """Run `modname.funcname(chk, tier, item)` for every item in worker processes and merge."""
    import multiprocessing as mp

    nproc = nproc or int(os.environ.get("VERIF_JOBS", "0") or 0) or min(16, os.cpu_count() or 4)
    items = list(items)
    if not items:
        return
    args = [(chk.pid, chk.tier, chk.level, chk.technique, modname, funcname, it) for it in items]
    from engine import zsym

    with mp.get_context("fork").Pool(min(nproc, len(items))) as pool:
        it = pool.imap_unordered(_worker, args, chunksize=1)
        done = 0
        while done < len(items):
            left = (zsym.DEADLINE - time.time() + 30) if zsym.DEADLINE else None
            try:
                d = it.next(timeout=left)
            except StopIteration:
                break
            except mp.TimeoutError:
                pool.terminate()
                chk.note_inconclusive(f"wall-clock budget exhausted with {len(items) - done} shard(s) unfinished")
                break
            chk.merge(d)
            done += 1
