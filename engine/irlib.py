"""Shared IR-level machinery for the history-shaped properties (C01, C06, C11, C13, C20 ...):
seed states, the operation alphabet over the public API, the universe closure, the invariant I(U)
and the snapshot S(U).  Oracles use public accessors only.
"""
from __future__ import annotations

import onnx_ir as ir
from onnx_ir import convenience as ir_convenience

EXC = (ValueError, IndexError, TypeError, KeyError, RuntimeError, AttributeError, AssertionError)


class State:
    def __init__(self, graphs, nodes, values):
        self.graphs = list(graphs)
        self.nodes = list(nodes)
        self.values = list(values)
        # a free value without a name (kept outside the selector pool so that the pool's modulo indexing is unchanged)
        self.unnamed = ir.Value(const_value=_tensor("u"))

    def universe(self):
        """Every graph / node / value reachable from anything the harness ever held.  An object whose public accessors raise
        (a half-built node a rejected constructor left behind, say) is recorded in `self.broken` and not walked further."""
        graphs, nodes, values = [], [], []
        seen = set()
        self.broken = {}
        self.broken_objs = []

        def add(o):
            if o is None or id(o) in seen:
                return
            seen.add(id(o))
            try:
                if isinstance(o, ir.Graph):
                    kids = list(o) + list(o.inputs) + list(o.outputs) + list(o.initializers.values())
                    graphs.append(o)
                elif isinstance(o, ir.Node):
                    kids = list(o.inputs) + list(o.outputs) + [o.graph]
                    _ = (o.name, o.domain, o.op_type, o.overload, o.doc_string)
                    for a in o.attributes.values():
                        if isinstance(a, ir.Attr) and a.type == ir.AttributeType.GRAPH:
                            kids.append(a.value)
                        elif isinstance(a, ir.Attr) and a.type == ir.AttributeType.GRAPHS:
                            kids.extend(a.value)
                    nodes.append(o)
                elif isinstance(o, ir.Value):
                    kids = [o.producer()] + [u.node for u in o.uses()]
                    values.append(o)
                    try:
                        kids.append(o.graph)
                    except _ACCESSOR_ERRORS as e:
                        # the value itself is sound enough to be listed; its owner cannot be computed
                        self.broken[id(o)] = f"{type(o).__name__}.graph raised {type(e).__name__}"
                        self.broken_objs.append(o)
                        values.pop()
                else:
                    return
            except _ACCESSOR_ERRORS as e:
                self.broken[id(o)] = f"{type(o).__name__} accessor raised {type(e).__name__}"
                self.broken_objs.append(o)
                return
            for k in kids:
                add(k)

        for o in self.graphs + self.nodes + self.values + [self.unnamed]:
            add(o)
        return graphs, nodes, values


_ACCESSOR_ERRORS = (AttributeError, TypeError, KeyError, IndexError, AssertionError, ValueError)


def _as_int(i):
    """plain int of an index that may be a symbolic proxy (or None if it is not an integer)"""
    import operator

    try:
        return operator.index(i)
    except TypeError:
        return None


def _count_is(seq, x):
    return sum(1 for y in seq if y is x)


def invariant(st: State):
    """I(U): list of violated clauses (empty = consistent)."""
    graphs, nodes, values = st.universe()
    bad = []
    for o in st.broken_objs:
        bad.append(f"[broken-object] reachable object whose public accessors fail: {st.broken[id(o)]}")
    # (i) uses <-> inputs
    for v in values:
        uses = list(v.uses())
        for u in uses:
            n, i = u.node, _as_int(u.idx)
            if not (i is not None and 0 <= i < len(n.inputs) and n.inputs[i] is v):
                bad.append(f"[i-use-not-held] use ({n.name},{i}) listed by value {v.name!r} but the node does not hold it there")
        keys = [(id(u.node), _as_int(u.idx)) for u in uses]
        if len(set(keys)) != len(keys):
            bad.append(f"[i-use-dup] value {v.name!r} lists a use twice")
    for n in nodes:
        for i, v in enumerate(n.inputs):
            if v is not None and not any(u.node is n and _as_int(u.idx) == i for u in v.uses()):
                bad.append(f"[i-held-not-listed] node {n.name} holds value {v.name!r} at input {i} but the value does not list the use")
    # (ii) producer/index <-> outputs
    for n in nodes:
        for i, o in enumerate(n.outputs):
            if o.producer() is not n or _as_int(o.index()) != i:
                bad.append(f"[ii-output-producer] output {i} of node {n.name} names producer {getattr(o.producer(), 'name', None)} index {o.index()}")
    for v in values:
        p = v.producer()
        if p is not None:
            idx = _as_int(v.index())
            if not (idx is not None and 0 <= idx < len(p.outputs) and p.outputs[idx] is v):
                bad.append(f"[ii-producer-not-output] value {v.name!r} names producer {p.name} index {idx} but is not that output")
    # (iii) node.graph <-> graph contents
    for g in graphs:
        content = list(g)
        if len(g) != len(content):
            bad.append(f"[iii-len] len(graph {g.name}) = {len(g)} but iteration yields {len(content)}")
        if list(reversed(g)) != content[::-1]:
            bad.append(f"[iii-reversed] reversed(graph {g.name}) disagrees with forward iteration")
        for i, n in enumerate(content):
            if g[i] is not n:
                bad.append(f"[iii-getitem] graph {g.name}[{i}] disagrees with iteration")
            if _count_is(content, n) != 1:
                bad.append(f"[iii-dup-node] graph {g.name} yields node {n.name} more than once")
            if n.graph is not g:
                bad.append(f"[iii-contained-wrong-graph] graph {g.name} contains node {n.name} whose .graph is {getattr(n.graph, 'name', None)}")
    for n in nodes:
        if n.graph is not None:
            if not any(n.graph is g for g in graphs):
                bad.append(f"[iii-unknown-graph] node {n.name} names an unknown graph")
            elif _count_is(list(n.graph), n) != 1:
                bad.append(f"[iii-graph-not-containing] node {n.name} names graph {n.graph.name} which does not contain it exactly once")
    # (iv) graph collections <-> value flags
    for v in values:
        in_inputs = [g for g in graphs if _count_is(list(g.inputs), v)]
        in_outputs = [g for g in graphs if _count_is(list(g.outputs), v)]
        in_inits = [g for g in graphs if _count_is(list(g.initializers.values()), v)]
        if v.is_graph_input() != bool(in_inputs):
            bad.append(f"[iv-input-flag] value {v.name!r}: is_graph_input()={v.is_graph_input()} but it is in the inputs of {len(in_inputs)} graph(s)")
        if v.is_graph_output() != bool(in_outputs):
            bad.append(f"[iv-output-flag] value {v.name!r}: is_graph_output()={v.is_graph_output()} but it is in the outputs of {len(in_outputs)} graph(s)")
        if v.is_initializer() != bool(in_inits):
            bad.append(f"[iv-initializer-flag] value {v.name!r}: is_initializer()={v.is_initializer()} but it is an initializer of {len(in_inits)} graph(s)")
        owners = in_inputs + in_outputs + in_inits
        for g in owners:
            if v.graph is not g:
                bad.append(f"[iv-owner-graph] value {v.name!r} is in a collection of graph {g.name} but .graph is {getattr(v.graph, 'name', None)}")
        if (in_inputs or in_inits) and v.producer() is not None:
            bad.append(f"[iv-input-has-producer] value {v.name!r} is a graph input/initializer but has producer {v.producer().name}")
    for g in graphs:
        for k, v in g.initializers.items():
            if k != v.name:
                bad.append(f"[iv-initializer-key] graph {g.name}: initializer stored under {k!r} is named {v.name!r}")
    return bad


def producer_graph_rule(st: State):
    """Documented meaning of Value.graph ("when the value is an output of a node, the owning graph is the graph that
    the node belongs to").  NOT part of I(U): C01 lists its relations explicitly and the public API lets a graph
    list a value produced elsewhere as its output.  Used by C17 for what a deserializer may return."""
    _graphs, _nodes, values = st.universe()
    bad = []
    for v in values:
        p = v.producer()
        if p is not None and p.graph is not None and v.graph is not p.graph:
            bad.append(f"[producer-graph] value {v.name!r} is produced by node {p.name} of graph {p.graph.name} but is owned by graph {getattr(v.graph, 'name', None)}")
    return bad


def snapshot(st: State):
    """S(U): every public accessor of every object, objects replaced by stable ids."""
    graphs, nodes, values = st.universe()
    order = {}
    for o in st.graphs + st.nodes + st.values + [st.unnamed] + graphs + nodes + values + st.broken_objs:
        order.setdefault(id(o), len(order))

    def oid(o):
        return None if o is None else order.get(id(o), "?")

    tensors = {}

    def tid(t):
        # run-stable identity of a tensor object: order of first appearance
        return tensors.setdefault(id(t), len(tensors))

    snap = {}
    for o in st.broken_objs:
        snap[("broken", oid(o))] = st.broken[id(o)]
    for g in graphs:
        snap[("g", oid(g))] = (
            g.name, [oid(n) for n in g], [oid(v) for v in g.inputs], [oid(v) for v in g.outputs],
            [(k, oid(v)) for k, v in g.initializers.items()], dict(g.opset_imports), g.doc_string, len(g),
        )
    for n in nodes:
        snap[("n", oid(n))] = (
            n.name, n.domain, n.op_type, n.overload, [oid(v) for v in n.inputs], [oid(v) for v in n.outputs], oid(n.graph),
            sorted(n.attributes.keys()), n.doc_string,
        )
    for v in values:
        snap[("v", oid(v))] = (
            v.name, oid(v.producer()), _as_int(v.index()), sorted((oid(u.node), _as_int(u.idx)) for u in v.uses()), oid(v.graph),
            v.is_graph_input(), v.is_graph_output(), v.is_initializer(), repr(v.type), repr(v.shape),
            None if v.const_value is None else (v.const_value.name, tid(v.const_value)),
        )
    return snap


# ---------------------------------------------------------------------------------------------
# seeds


def _tensor(name):
    import numpy as np

    return ir.Tensor(np.array([1.0, 2.0], dtype=np.float32), name=name)


def seed(k: int) -> State:
    if k == 0:
        # flat graph: optional (None) input, a 2-output node, a detached extra node
        x = ir.Value(name="x")
        w = ir.Value(name="w", const_value=_tensor("w"))
        n0 = ir.Node("", "A", [x, w], num_outputs=3, name="n0")  # outputs: used, unused, used
        n1 = ir.Node("", "B", [n0.outputs[0], x], name="n1")
        n2 = ir.Node("", "C", [n1.outputs[0], None, n0.outputs[2]], name="n2")
        g = ir.Graph([x], [n2.outputs[0]], nodes=[n0, n1, n2], initializers=[w], name="g0")
        extra = ir.Node("", "D", [x], name="e")
        free = ir.Value(name="free")
        return State([g], [n0, n1, n2, extra], [x, w, n0.outputs[0], n0.outputs[1], n0.outputs[2], n1.outputs[0], n2.outputs[0], extra.outputs[0], free])
    if k == 1:
        # If-subgraph capturing an outer value
        x = ir.Value(name="x")
        c = ir.Value(name="c")
        a = ir.Node("", "A", [x], name="a")
        inner = ir.Node("", "Inner", [a.outputs[0], x], name="inner")
        sub = ir.Graph([], [inner.outputs[0]], nodes=[inner], name="sub")
        iff = ir.Node("", "If", [c], attributes=[ir.AttrGraph("then_branch", sub)], name="if")
        g = ir.Graph([x, c], [iff.outputs[0]], nodes=[a, iff], name="g1")
        lone = ir.Node("", "L", [a.outputs[0]], name="lone")
        return State([g, sub], [a, inner, iff, lone], [x, c, a.outputs[0], inner.outputs[0], iff.outputs[0], lone.outputs[0]])
    if k == 2:
        # two graphs
        x = ir.Value(name="x")
        y = ir.Value(name="y")
        p = ir.Node("", "P", [x], name="p")
        q = ir.Node("", "Q", [y], name="q")
        g = ir.Graph([x], [p.outputs[0]], nodes=[p], name="ga")
        h = ir.Graph([y], [q.outputs[0]], nodes=[q], name="gb")
        wv = ir.Value(name="iw", const_value=_tensor("iw"))
        h.initializers["iw"] = wv
        return State([g, h], [p, q], [x, y, p.outputs[0], q.outputs[0], wv])
    if k == 3:
        # a value that is input + output + initializer; another listed twice in the outputs
        x = ir.Value(name="x", const_value=_tensor("x"))
        z = ir.Value(name="z")
        n = ir.Node("", "N", [x, z], name="n")
        g = ir.Graph([x, z], [x, n.outputs[0], n.outputs[0]], nodes=[n], initializers=[x], name="g3")
        free = ir.Value(name="free", const_value=_tensor("free"))
        return State([g], [n], [x, z, n.outputs[0], free])
    if k == 4:
        # every two-role combination: input+output, output+initializer, input+initializer
        io = ir.Value(name="io")
        oi = ir.Value(name="oi", const_value=_tensor("oi"))
        ii = ir.Value(name="ii", const_value=_tensor("ii"))
        n = ir.Node("", "N", [io, oi, ii], name="n")
        g = ir.Graph([io, ii], [io, oi, n.outputs[0]], nodes=[n], initializers=[oi, ii], name="g4")
        other = ir.Graph([], [], nodes=[], name="other")
        return State([g, other], [n], [io, oi, ii, n.outputs[0]])
    if k == 5:
        # initializers in two scopes (main graph + If body)
        x = ir.Value(name="x")
        wo = ir.Value(name="w_outer", const_value=_tensor("w_outer"))
        bo = ir.Value(name="b_outer", const_value=_tensor("b_outer"))
        wi = ir.Value(name="w_inner", const_value=_tensor("w_inner"))
        bi = ir.Value(name="bias_inner", const_value=_tensor("bias_inner"))
        inner = ir.Node("", "Inner", [wi, bi, x], name="inner")
        sub = ir.Graph([], [inner.outputs[0]], nodes=[inner], initializers=[wi, bi], name="body")
        iff = ir.Node("", "If", [x], attributes=[ir.AttrGraph("then_branch", sub)], name="if")
        m = ir.Node("", "M", [wo, bo], name="m")
        g = ir.Graph([x], [iff.outputs[0], m.outputs[0]], nodes=[iff, m], initializers=[wo, bo], name="g5")
        return State([g, sub], [inner, iff, m], [x, wo, bo, wi, bi, inner.outputs[0], iff.outputs[0], m.outputs[0]])
    if k == 6:
        # a dependency cycle (p <-> q) next to an unsorted but acyclic pair
        x = ir.Value(name="x")
        qo = ir.Value(name="q_out")
        p = ir.Node("", "P", [qo], name="p")
        q = ir.Node("", "Q", [p.outputs[0]], outputs=[qo], name="q")
        late = ir.Node("", "Late", [x], name="late")
        early = ir.Node("", "Early", [late.outputs[0]], name="early")
        g = ir.Graph([x], [early.outputs[0]], nodes=[early, late, p, q], name="g6")
        return State([g], [p, q, late, early], [x, qo, p.outputs[0], late.outputs[0], early.outputs[0]])
    if k == 7:
        # a value that WAS an input and an output of ga, was removed from both, and now belongs to gb (stale bookkeeping
        # candidates); plus free values and a value listed twice
        x = ir.Value(name="x")
        mv = ir.Value(name="mv")
        p = ir.Node("", "P", [x, mv], name="p")
        ga = ir.Graph([x, mv], [p.outputs[0], mv], nodes=[p], name="ga")
        ga.inputs.remove(mv)
        ga.outputs.remove(mv)
        y = ir.Value(name="y")
        q = ir.Node("", "Q", [y], name="q")
        gb = ir.Graph([y], [q.outputs[0], q.outputs[0]], nodes=[q], name="gb")
        gb.inputs.append(mv)
        fresh, fresh2 = ir.Value(name="fresh"), ir.Value(name="fresh2")
        return State([ga, gb], [p, q], [fresh, mv, x, p.outputs[0], fresh2, y, q.outputs[0]])
    if k == 8:
        # root graph acyclic but stored out of order; the then-branch of its If holds a cycle that does not depend on outer values
        x = ir.Value(name="x")
        a = ir.Node("", "A", [x], name="a")
        b = ir.Node("", "B", [a.outputs[0]], name="b")
        c = ir.Node("", "C", [b.outputs[0]], name="c")
        qo = ir.Value(name="q_out")
        pn = ir.Node("", "P", [qo], name="p")
        qn = ir.Node("", "Q", [pn.outputs[0]], outputs=[qo], name="q")
        then_g = ir.Graph([], [pn.outputs[0]], nodes=[pn, qn], name="then_cyclic")
        e2 = ir.Node("", "E2", [x], name="e2")
        e1 = ir.Node("", "E1", [e2.outputs[0]], name="e1")
        else_g = ir.Graph([], [e1.outputs[0]], nodes=[e1, e2], name="else_unsorted")
        iff = ir.Node("", "If", [c.outputs[0]], attributes=[ir.AttrGraph("then_branch", then_g), ir.AttrGraph("else_branch", else_g)], name="if")
        g = ir.Graph([x], [iff.outputs[0]], nodes=[c, b, a, iff], name="g8")
        return State([g, then_g, else_g], [a, b, c, iff, pn, qn, e1, e2], [x, a.outputs[0], b.outputs[0], c.outputs[0], qo, pn.outputs[0], iff.outputs[0]])
    if k == 9:
        # nodes that hold the SAME value at several input positions, with None slots in between
        a = ir.Value(name="x")
        b = ir.Value(name="z")
        cat = ir.Node("", "Concat", [b, None, a, b, None, b], name="cat")
        mul = ir.Node("", "Mul", [cat.outputs[0], cat.outputs[0]], name="mul")
        sq = ir.Node("", "Mul", [b, b], name="sq")
        g = ir.Graph([a, b], [mul.outputs[0], sq.outputs[0]], nodes=[cat, mul, sq], name="g9")
        free = ir.Value(name="free")
        return State([g], [cat, mul, sq], [a, b, cat.outputs[0], mul.outputs[0], sq.outputs[0], free])
    raise ValueError(k)


N_SEEDS = 10
NAMES = ["x", "w", "fresh", "", None, "val_0", "z", "oi", "ii", "w_outer", "b_outer", "w_inner", "bias_inner"]


def _pick(seq, i):
    return seq[i % len(seq)] if seq else None


# The operation alphabet.  Every operation reads only the parameters it needs so that CrossHair
# merges the values of the others into one path.
OPS = [
    "g.append", "g.extend2", "g.insert_before", "g.insert_after", "g.insert_after2", "g.remove", "g.remove2", "g.sort",
    "n.replace_input_with", "n.resize_inputs", "n.resize_outputs", "n.prepend", "n.append", "v.replace_all_uses_with",
    "in.append", "in.extend2", "in.insert", "in.pop", "in.remove", "in.clear", "in.setitem", "in.setslice", "in.delitem", "in.reverse", "in.imul",
    "out.append", "out.extend2", "out.insert", "out.pop", "out.remove", "out.clear", "out.setitem", "out.setslice", "out.delitem", "out.iadd",
    "init.setitem", "init.pop", "init.delitem", "init.clear", "init.register", "init.update", "init.setdefault", "init.popitem", "init.add", "init.ior",
    "v.rename", "Node()", "Node(outputs=)", "conv.replace_all_uses_with", "g.remove_safe_many", "conv.rename_values2", "conv.rename_values3",
    "in.setslice2", "out.setslice2", "in.extend3", "out.extend3", "init.update_keys", "Node(outputs3=)",
]
N_OPS = len(OPS)
COLLECTION_OPS = [i for i, o in enumerate(OPS) if o.split(".")[0] in ("in", "out", "init")]
NODE_OPS = [i for i, o in enumerate(OPS) if o.split(".")[0] in ("g", "n", "v", "conv") or o.startswith("Node")]
RAISING_CAPABLE = list(range(len(OPS)))


ONE_SHOT = False   # when set, multi-element arguments are passed as one-shot iterators (the API accepts any Iterable)


def _seq(items):
    return (x for x in items) if ONE_SHOT else items


def apply(st: State, op: int, gi: int, a: int, b: int, c: int, d: int = 0):
    """Perform operation `op`; returns the exception type name if the call raised, else None."""
    name = OPS[op]
    g = _pick(st.graphs, gi)
    N = lambda i: _pick(st.nodes, i)  # noqa: E731
    V = lambda i: _pick(st.values, i)  # noqa: E731
    try:
        if name == "g.append":
            g.append(N(a))
        elif name == "g.extend2":
            g.extend(_seq([N(a), N(b)]))
        elif name == "g.insert_before":
            g.insert_before(N(a), N(b))
        elif name == "g.insert_after":
            g.insert_after(N(a), N(b))
        elif name == "g.insert_after2":
            g.insert_after(N(a), _seq([N(b), N(c)]))
        elif name == "g.remove":
            g.remove(N(a), safe=bool(b % 2))
        elif name == "g.remove2":
            g.remove(_seq([N(a), N(b)]), safe=bool(c % 2))
        elif name == "g.remove_safe_many":
            g.remove(_seq([N(a), N(b), N(c)]), safe=True)
        elif name == "g.sort":
            g.sort()
        elif name == "n.replace_input_with":
            N(a).replace_input_with(b, None if c < 0 else V(c))
        elif name == "n.resize_inputs":
            N(a).resize_inputs(b)
        elif name == "n.resize_outputs":
            N(a).resize_outputs(b)
            for o in N(a).outputs:
                if not any(o is v for v in st.values):
                    st.values.append(o)
        elif name == "n.prepend":
            N(a).prepend(N(b))
        elif name == "n.append":
            N(a).append(_seq([N(b), N(c)]))
        elif name == "v.replace_all_uses_with":
            V(a).replace_all_uses_with(V(b), replace_graph_outputs=bool(c % 2))
        elif name == "conv.replace_all_uses_with":
            ir_convenience.replace_all_uses_with([V(a), V(b)], [V(b), V(c)], replace_graph_outputs=True)
        elif name.startswith(("in.", "out.")):
            coll = g.inputs if name.startswith("in.") else g.outputs
            m = name.split(".")[1]
            if m == "append":
                coll.append(V(a))
            elif m == "extend2":
                coll.extend(_seq([V(a), V(b)]))
            elif m == "insert":
                coll.insert(b, V(a))
            elif m == "pop":
                coll.pop(b)
            elif m == "remove":
                coll.remove(V(a))
            elif m == "clear":
                coll.clear()
            elif m == "setitem":
                coll[b] = V(a)
            elif m == "setslice":
                coll[b:c] = [V(a)]
            elif m == "setslice2":
                coll[b:c] = [V(a), V(d)]
            elif m == "extend3":
                coll.extend([V(a), V(d), V(a)])
            elif m == "delitem":
                del coll[b]
            elif m == "reverse":
                coll.reverse()
            elif m == "imul":
                coll *= b
            elif m == "iadd":
                coll += [V(a)]
        elif name.startswith("init."):
            m = name.split(".")[1]
            inits = g.initializers
            key = _pick(NAMES, b)
            if m == "setitem":
                inits[V(a).name if c % 2 else key] = V(a)
            elif m == "pop":
                inits.pop(key)
            elif m == "delitem":
                del inits[key]
            elif m == "clear":
                inits.clear()
            elif m == "register":
                g.register_initializer(V(a))
            elif m == "update":
                inits.update({V(a).name: V(a), V(c).name: V(c)})
            elif m == "setdefault":
                inits.setdefault(key, V(a))
            elif m == "popitem":
                inits.popitem()
            elif m == "add":
                inits.add(V(a))
            elif m == "ior":
                inits |= {V(a).name: V(a), V(c).name: V(c)}
            elif m == "update_keys":
                # keys chosen independently of the values' names; either value may be the unnamed free value (also twice)
                first = st.unnamed if a % 3 == 0 else V(a)
                second = st.unnamed if c % 3 == 0 else V(c)
                inits.update({key: first, (_pick(NAMES, d) or "k2"): second})
        elif name == "v.rename":
            V(a).name = _pick(NAMES, b)
        elif name == "conv.rename_values2":
            ir_convenience.rename_values([V(a), V(b)], [_pick(NAMES, c) or "", _pick(NAMES, d) or ""])
        elif name == "conv.rename_values3":
            # three values, the third keeps a name derived from d: swaps / cycles / collisions arise from the selectors
            ir_convenience.rename_values([V(a), V(b), V(c)], [V(b).name or "n1", V(c).name or "n2", _pick(NAMES, d) or ""])
        elif name == "Node()":
            n = ir.Node("", "New", [V(a), None if b < 0 else V(b)], graph=(g if c % 2 else None), name="new")
            st.nodes.append(n)
            st.values.extend(n.outputs)
        elif name == "Node(outputs=)":
            n = ir.Node("", "NewO", [V(a)], outputs=[V(b)], graph=(g if c % 2 else None), name="newo")
            st.nodes.append(n)
        elif name == "Node(outputs3=)":
            # several supplied outputs: the offending one (already produced / listed twice) may sit at any position
            n = ir.Node("", "NewO3", [V(a)], outputs=[V(b), V(c), V(d)], graph=(g if c % 2 else None), name="newo3")
            st.nodes.append(n)
        else:
            raise AssertionError(name)
    except EXC as e:
        return type(e).__name__
    return None


def params_used(op: int):
    """which of (gi, a, b, c) the operation reads — for the evidence description only"""
    return OPS[op]


def tags(problems):
    """coarse classes of violated clauses (used to name known findings narrowly)"""
    import re

    return sorted({m.group(1) for p in problems for m in [re.match(r"\[([\w-]+)\]", p)] if m})
