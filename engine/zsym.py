"""E2 `zsym` — execution of real Python functions on z3-term proxies, with a re-execution DFS over
branch decisions.  Every `bool()` of a symbolic condition asks the solver which outcomes are feasible
under the current path condition; the function is re-executed once per feasible decision vector.  At
the end of a path the harness returns the property as a formula and the engine asks
`path condition AND assumptions AND NOT property`:  unsat on every path = holds for every value of
the symbolic variables; sat = model (concrete counterexample to replay); unknown = inconclusive.

The proxies deliberately do not subclass int/str: CPython would read a concrete value at C level.
"""
from __future__ import annotations

import time
import types

import z3


class _Poison:
    """Engine exceptions mark the running context as dead when they are constructed, so that stand-ins
    for blocking primitives (engine.vthreads) stop blocking while the exception unwinds real code."""

    def __init__(self, *a):
        super().__init__(*a)
        if CTX is not None:
            CTX.dead = True


class Unsupported(_Poison, Exception):
    """The code did something with a symbolic value that the proxies do not model."""


class _Infeasible(_Poison, BaseException):
    pass


class PathBudget(_Poison, Exception):
    pass


def _arith_only(a):
    try:
        return "String" not in a.sexpr() and "Seq" not in a.sexpr() and "Array" not in a.sexpr() and "declare-fun" not in a.sexpr()
    except Exception:  # noqa: BLE001
        return False


class PathState:
    """State shared by the successive re-executions of one exploration: the decision plan, the outcome of
    every branch() call of the current prefix, and ONE incremental solver with a frame per decision, so
    that a re-execution does no solver work for the prefix it shares with the previous path."""

    def __init__(self, assumptions, timeout_ms, incremental=True):
        # incremental=False: a fresh solver per path (z3's incremental mode uses weaker cores for
        # non-linear arithmetic and strings); the decision constraints of the prefix are re-asserted.
        self.incremental = incremental
        self.assumptions = list(assumptions)
        self.plan = []    # [value, flipped, payload, call index, committed constraint, assumes made after it]
        self.calls = []   # per branch() call of the current prefix: ("T", value) trivial / ("D", value) decision
        self.solver = z3.Solver()
        self.solver.set("timeout", timeout_ms)
        self.solver.add(*assumptions)
        self.frames = 0
        self.timeout_ms = timeout_ms

    def truncate(self, n):
        if not self.incremental:
            self.solver = z3.Solver()
            self.solver.set("timeout", self.timeout_ms)
            self.solver.add(*self.assumptions)
            self.solver.add(*self.base_assumes)
            for e in self.plan[:n]:
                self.solver.add(e[4], *e[5])
            self.frames = n
            return
        while self.frames > n:
            self.solver.pop()
            self.frames -= 1

    base_assumes: list = []

    def next_path(self, consumed):
        """Prepare the plan for the next path (flip the deepest unflipped decision). False when exhausted."""
        plan = self.plan
        if consumed is not None:
            del plan[consumed:]
        while plan and plan[-1][1]:
            plan.pop()
        if not plan:
            return False
        plan[-1] = [not plan[-1][0], True, plan[-1][2], plan[-1][3], None, [], len(plan[-1]) > 6 and plan[-1][6]]
        return True


class _Ctx:
    def __init__(self, plan_or_state, assumptions=(), timeout_ms=30000):
        if isinstance(plan_or_state, PathState):
            st = plan_or_state
        else:  # legacy call style: a bare plan list -> private state (no sharing between paths)
            st = PathState(assumptions, timeout_ms)
            st.plan = plan_or_state
            for e in st.plan:
                while len(e) < 6:
                    e.append(None if len(e) != 5 else [])
            st.calls = None
        self.st = st
        self.plan = st.plan
        self.solver = st.solver
        self.timeout_ms = st.timeout_ms
        self.pos = 0
        self.pc = []
        self.queries = 0
        self.solver_s = 0.0
        self.trace = []  # free-form event log the harness/stubs may append to
        self.dead = False  # set when an engine exception was raised on this path
        self.call_idx = 0
        if st.calls is not None and st.plan:
            # everything strictly before the flipped (last) decision is replayed from the record
            self.replay_calls = st.plan[-1][3]
            del st.calls[self.replay_calls:]
            st.truncate(len(st.plan) - 1)
            self.solver = st.solver
            self.live = False
        else:
            self.replay_calls = 0
            if st.calls is not None:
                del st.calls[:]
                st.base_assumes = []
                st.truncate(0)
                self.solver = st.solver
            self.live = True

    def check(self, *extra):
        t = time.time()
        if DEADLINE is not None:
            left = DEADLINE - t
            if left <= 0:
                raise TimeBudget("wall-clock budget of the check exhausted")
            self.solver.set("timeout", int(min(self.timeout_ms, 4000, left * 1000 + 1)))
        else:
            self.solver.set("timeout", int(min(self.timeout_ms, 4000)))
        self.solver.push()
        if extra:
            self.solver.add(*extra)
        self.queries += 1
        r = str(self.solver.check())
        model = self.solver.model() if r == "sat" else None
        assertions = list(self.solver.assertions()) if r == "unknown" else None
        self.solver.pop()
        if r == "unknown":
            # z3's non-linear / string heuristics depend on incidental state; retry the same query in
            # fresh, non-incremental solvers (different seeds / the NIA-specific solver) before giving up
            for attempt in range(5):
                s2 = z3.SolverFor("QF_NIA") if attempt == 1 and all(_arith_only(a) for a in assertions) else z3.Solver()
                # z3 timeouts are wall-clock: on a heavily loaded machine the last attempt gets four times the configured limit
                s2.set("timeout", int(4 * self.timeout_ms if attempt == 4 else self.timeout_ms if attempt == 3 else min(self.timeout_ms, 4000)))
                if attempt:
                    s2.set("random_seed", attempt * 7919)
                s2.add(*assertions)
                self.queries += 1
                r2 = str(s2.check())
                if r2 != "unknown":
                    r = r2
                    model = s2.model() if r == "sat" else None
                    break
                if DEADLINE is not None and time.time() > DEADLINE:
                    break
        self.solver_s += time.time() - t
        return r, model

    def _feasible(self, c):
        r, _ = self.check(c)
        if r == "unknown":
            raise Unsupported("solver answered unknown on a branch-feasibility query")
        return r == "sat"

    def _commit(self, c):
        self.pc.append(c)
        self.plan[self.pos - 1][4] = c
        self.plan[self.pos - 1][5] = []
        if self.st.incremental:
            self.solver.push()
        self.solver.add(c)
        self.st.frames += 1

    def branch(self, cond, payload=None, known_sat=False, free=False):
        """cond: z3 BoolRef, SBool (possibly lazy) or a thunk returning a BoolRef.
        free=True: the caller guarantees that both outcomes are feasible (a fresh choice variable)."""
        if self.dead:  # an engine exception is unwinding real code (finally blocks): take no more decisions
            raise _Infeasible()
        st = self.st
        ci = self.call_idx
        self.call_idx += 1
        if st.calls is not None and ci < self.replay_calls:
            kind, val = st.calls[ci]
            if kind == "D":
                self.pos += 1
            return val
        self.live = True
        if isinstance(cond, SBool):
            cond = cond.t
        elif callable(cond):
            cond = cond()
        cond = z3.simplify(cond)
        if z3.is_true(cond) or z3.is_false(cond):
            val = z3.is_true(cond)
            if st.calls is not None:
                st.calls.append(("T", val))
            return val
        if self.pos < len(self.plan):
            val = self.plan[self.pos][0]
            c = cond if val else z3.Not(cond)
            e = self.plan[self.pos]
            if self.pos == len(self.plan) - 1 and e[1] and not (len(e) > 6 and e[6]):
                if not self._feasible(c):  # freshly flipped decision whose other side was not pre-checked
                    raise _Infeasible()
            e[3] = ci
        else:
            if free:
                val, other = True, True
            elif known_sat or self._feasible(cond):
                val = True
                other = self._feasible(z3.Not(cond))   # decided now: saves a whole re-execution when one-sided
            elif self._feasible(z3.Not(cond)):
                val, other = False, False
            else:
                raise _Infeasible()
            # entry: [value, flipped (= no alternative left), payload, call index, constraint, assumes, other side pre-checked]
            self.plan.append([val, not other, payload, ci, None, [], True])
            c = cond if val else z3.Not(cond)
        self.pos += 1
        if st.calls is not None:
            st.calls.append(("D", val))
        self._commit(c)
        return val

    def concretize(self, term, limit=64):
        """Fork over the feasible values of an integer term (list index, range bound, hash ...).
        The value tried at each plan position is recorded so that re-executions repeat it; while the
        shared prefix is replayed no z3 term is built at all."""
        if self.dead:
            raise _Infeasible()
        st = self.st
        t = None
        for _ in range(limit):
            ci = self.call_idx
            if st.calls is not None and ci < self.replay_calls:
                kind, val = st.calls[ci]
                if kind == "C":  # the term was a constant on this prefix: no decision was taken
                    self.call_idx += 1
                    return val
                val = self.plan[self.pos][2]
                if val is None:
                    raise Unsupported("plan desynchronised at a concretisation point")
                if self.branch(None):
                    return val
                continue
            if t is None:
                t = z3.simplify(term.t if isinstance(term, SInt) else term)
                if z3.is_int_value(t):
                    self.call_idx += 1
                    if st.calls is not None:
                        st.calls.append(("C", t.as_long()))
                    return t.as_long()
            if self.pos < len(self.plan):
                val = self.plan[self.pos][2]
                if val is None:
                    raise Unsupported("plan desynchronised at a concretisation point")
            else:
                r, m = self.check()
                if r != "sat":
                    if r == "unknown":
                        raise Unsupported("solver answered unknown while concretising")
                    raise _Infeasible()
                val = m.eval(t, model_completion=True).as_long()
                if self.branch(t == val, payload=val, known_sat=True):
                    return val
                continue
            if self.branch(t == val, payload=val):
                return val
        raise Unsupported(f"more than {limit} feasible values for a concretised integer (unbounded payload reaches an index/range)")

    def assume(self, cond):
        """Constrain the rest of the path (e.g. a guard of a blocking call)."""
        self.pc.append(cond)
        if self.live:
            self.solver.add(cond)  # while replaying the shared prefix the constraint is already in its frame
            if self.pos > 0 and self.pos <= len(self.plan):
                self.plan[self.pos - 1][5].append(cond)
            else:
                self.st.base_assumes = self.st.base_assumes + [cond]


CTX: _Ctx | None = None
DEADLINE: float | None = None  # wall-clock limit of the running check (set by engine.common)


class TimeBudget(_Poison, Exception):
    """The check's wall-clock budget is exhausted (=> inconclusive, never success)."""


def ctx() -> _Ctx:
    assert CTX is not None, "symbolic value used outside zsym.explore"
    return CTX


# ---------------------------------------------------------------------------------------------
# proxies


def zint(x):
    if isinstance(x, SInt):
        return x.t
    if isinstance(x, SBool):
        return z3.If(x.t, z3.IntVal(1), z3.IntVal(0))
    if isinstance(x, bool):
        return z3.IntVal(int(x))
    if isinstance(x, int):
        return z3.IntVal(x)
    if isinstance(x, z3.ArithRef):
        return x
    raise Unsupported(f"integer operand of type {type(x).__name__}")


def zreal(x):
    if isinstance(x, SReal):
        return x.t
    if isinstance(x, SInt):
        return z3.ToReal(x.t)
    if isinstance(x, bool):
        return z3.RealVal(int(x))
    if isinstance(x, int):
        return z3.RealVal(x)
    if isinstance(x, float):
        if x != x or x in (float("inf"), float("-inf")):
            raise Unsupported("non-finite float")
        return z3.RealVal(repr(x)) if x == int(x) or len(repr(x)) < 18 else z3.RealVal(x.as_integer_ratio()[0]) / z3.RealVal(x.as_integer_ratio()[1])
    raise Unsupported(f"real operand of type {type(x).__name__}")


def zbool(x):
    if isinstance(x, SBool):
        return x.t
    if isinstance(x, z3.BoolRef):
        return x
    if isinstance(x, (SInt,)):
        return x.t != 0
    return z3.BoolVal(bool(x))


class SBool:
    """Symbolic boolean.  The z3 term may be given as a thunk: it is only built when the engine
    actually needs it (never while a re-execution replays the prefix shared with the previous path)."""

    __slots__ = ("_t", "_f")

    def __init__(self, t=None, f=None):
        self._t = t
        self._f = f

    @property
    def t(self):
        if self._t is None:
            self._t = self._f()
            self._f = None
        return self._t

    def __bool__(self):
        return ctx().branch(self)

    def __and__(self, o):
        return SBool(f=lambda: z3.And(self.t, zbool(o)))

    __rand__ = __and__

    def __or__(self, o):
        return SBool(f=lambda: z3.Or(self.t, zbool(o)))

    __ror__ = __or__

    def __invert__(self):
        return SBool(f=lambda: z3.Not(self.t))

    def __eq__(self, o):
        return SBool(f=lambda: self.t == zbool(o))

    def __ne__(self, o):
        return SBool(f=lambda: self.t != zbool(o))

    def __hash__(self):
        raise Unsupported("hash of symbolic bool")

    def __repr__(self):
        return f"SBool({self.t})"

    def __format__(self, spec):
        return "<symbool>"


def _divmod(a, b):
    """Python floor division / modulo of z3 ints (z3's div/mod are Euclidean)."""
    c = ctx()
    if not c.branch(b != 0):
        raise ZeroDivisionError("integer division or modulo by zero")
    if c.branch(b > 0):
        return a / b, a % b
    q = z3.If(a % b == 0, a / b, a / b - 1)
    return q, a - q * b


class SInt:
    """Symbolic integer; like SBool the z3 term may be a thunk built on demand."""

    __slots__ = ("_t", "_f", "_c")

    def __init__(self, t=None, f=None):
        self._t = z3.IntVal(t) if isinstance(t, int) else t
        self._f = f
        self._c = None  # (context, concrete value) once concretised on the current path

    @property
    def t(self):
        if self._t is None:
            self._t = self._f()
            self._f = None
        return self._t

    def _known(self):
        """the concrete value if this integer was already concretised on the current path"""
        c = self._c
        if c is not None and c[0] is CTX:
            return c[1]
        return None

    def __add__(self, o):
        if isinstance(o, (float, SReal)):
            return SReal(zreal(self) + zreal(o))
        return SInt(f=lambda: self.t + zint(o))

    __radd__ = __add__

    def __sub__(self, o):
        if isinstance(o, (float, SReal)):
            return SReal(zreal(self) - zreal(o))
        return SInt(f=lambda: self.t - zint(o))

    def __rsub__(self, o):
        if isinstance(o, (float, SReal)):
            return SReal(zreal(o) - zreal(self))
        return SInt(f=lambda: zint(o) - self.t)

    def __mul__(self, o):
        if isinstance(o, (float, SReal)):
            return SReal(zreal(self) * zreal(o))
        if isinstance(o, (tuple, list, str, bytes)):
            return o * self.__index__()
        return SInt(f=lambda: self.t * zint(o))

    __rmul__ = __mul__

    def __neg__(self):
        return SInt(f=lambda: -self.t)

    def __pos__(self):
        return self

    def __abs__(self):
        return SInt(f=lambda: z3.If(self.t >= 0, self.t, -self.t))

    def __floordiv__(self, o):
        if isinstance(o, int) and not isinstance(o, bool) and o > 0:
            return SInt(f=lambda: self.t / o)  # z3's Euclidean div is Python's floor div for positive divisors
        return SInt(_divmod(self.t, zint(o))[0])

    def __rfloordiv__(self, o):
        return SInt(_divmod(zint(o), self.t)[0])

    def __mod__(self, o):
        if isinstance(o, int) and not isinstance(o, bool) and o > 0:
            k = self._known()
            if k is not None:
                return k % o
            return SInt(f=lambda: self.t % o)
        return SInt(_divmod(self.t, zint(o))[1])

    def __rmod__(self, o):
        return SInt(_divmod(zint(o), self.t)[1])

    def __divmod__(self, o):
        q, r = _divmod(self.t, zint(o))
        return SInt(q), SInt(r)

    def __truediv__(self, o):
        d = zreal(o)
        if not ctx().branch(d != 0):
            raise ZeroDivisionError("division by zero")
        return SReal(zreal(self) / d)

    def __rtruediv__(self, o):
        if not ctx().branch(self.t != 0):
            raise ZeroDivisionError("division by zero")
        return SReal(zreal(o) / zreal(self))

    def _cmp(self, o, f):
        if isinstance(o, (float, SReal)):
            return SBool(f=lambda: f(zreal(self), zreal(o)))
        return SBool(f=lambda: f(self.t, zint(o)))

    def __lt__(self, o):
        return self._cmp(o, lambda a, b: a < b)

    def __le__(self, o):
        return self._cmp(o, lambda a, b: a <= b)

    def __gt__(self, o):
        return self._cmp(o, lambda a, b: a > b)

    def __ge__(self, o):
        return self._cmp(o, lambda a, b: a >= b)

    def __eq__(self, o):
        if o is None or isinstance(o, (str, bytes, tuple, list)):
            return False
        return self._cmp(o, lambda a, b: a == b)

    def __ne__(self, o):
        if o is None or isinstance(o, (str, bytes, tuple, list)):
            return True
        return self._cmp(o, lambda a, b: a != b)

    def __bool__(self):
        k = self._known()
        if k is not None:
            return k != 0
        return ctx().branch(SBool(f=lambda: self.t != 0))

    def __hash__(self):
        return hash(self.__index__())

    def __index__(self):
        k = self._known()
        if k is not None:
            return k
        v = ctx().concretize(self)
        self._c = (CTX, v)
        return v

    __int__ = __index__

    def __ceil__(self):
        return self

    __floor__ = __ceil__
    __trunc__ = __ceil__

    def __repr__(self):
        return f"SInt({self.t})"

    def __format__(self, spec):
        return "<symint>"


class SReal:
    """Exact rational stand-in for the float products `itemsize * size` and `bitwidth * size / 8`.
    Real arithmetic equals float arithmetic while all operands are < 2**50 (stated bound)."""

    __slots__ = ("t",)

    def __init__(self, t):
        self.t = t

    def __add__(self, o):
        return SReal(self.t + zreal(o))

    __radd__ = __add__

    def __sub__(self, o):
        return SReal(self.t - zreal(o))

    def __rsub__(self, o):
        return SReal(zreal(o) - self.t)

    def __mul__(self, o):
        return SReal(self.t * zreal(o))

    __rmul__ = __mul__

    def __truediv__(self, o):
        d = zreal(o)
        if not ctx().branch(d != 0):
            raise ZeroDivisionError("division by zero")
        return SReal(self.t / d)

    def __neg__(self):
        return SReal(-self.t)

    def __floor__(self):
        return SInt(z3.ToInt(self.t))

    def __ceil__(self):
        return SInt(-z3.ToInt(-self.t))

    def __trunc__(self):
        return SInt(z3.If(self.t >= 0, z3.ToInt(self.t), -z3.ToInt(-self.t)))

    __int__ = __trunc__

    def _cmp(self, o, f):
        return SBool(f(self.t, zreal(o)))

    def __lt__(self, o):
        return self._cmp(o, lambda a, b: a < b)

    def __le__(self, o):
        return self._cmp(o, lambda a, b: a <= b)

    def __gt__(self, o):
        return self._cmp(o, lambda a, b: a > b)

    def __ge__(self, o):
        return self._cmp(o, lambda a, b: a >= b)

    def __eq__(self, o):
        if o is None:
            return False
        return self._cmp(o, lambda a, b: a == b)

    def __ne__(self, o):
        if o is None:
            return True
        return self._cmp(o, lambda a, b: a != b)

    def __hash__(self):
        raise Unsupported("hash of symbolic real")

    def __repr__(self):
        return f"SReal({self.t})"

    def __format__(self, spec):
        return "<symreal>"


def zstr(x):
    if isinstance(x, SStr):
        return x.t
    if isinstance(x, str):
        return z3.StringVal(x)
    raise Unsupported(f"string operand of type {type(x).__name__}")


class SStr:
    """z3 String proxy: equality, concatenation, prefix/suffix/containment, length."""

    __slots__ = ("t",)

    def __init__(self, t):
        self.t = t if not isinstance(t, str) else z3.StringVal(t)

    def __eq__(self, o):
        if not isinstance(o, (str, SStr)):
            return False
        return SBool(self.t == zstr(o))

    def __ne__(self, o):
        if not isinstance(o, (str, SStr)):
            return True
        return SBool(self.t != zstr(o))

    def __add__(self, o):
        return SStr(z3.Concat(self.t, zstr(o)))

    def __radd__(self, o):
        return SStr(z3.Concat(zstr(o), self.t))

    def startswith(self, p):
        if isinstance(p, tuple):
            return SBool(z3.Or(*[z3.PrefixOf(zstr(q), self.t) for q in p]))
        return SBool(z3.PrefixOf(zstr(p), self.t))

    def endswith(self, p):
        if isinstance(p, tuple):
            return SBool(z3.Or(*[z3.SuffixOf(zstr(q), self.t) for q in p]))
        return SBool(z3.SuffixOf(zstr(p), self.t))

    def __contains__(self, p):
        return bool(SBool(z3.Contains(self.t, zstr(p))))

    def __len__(self):
        raise Unsupported("len() of a symbolic str must stay symbolic: use zsym.slen")

    def __bool__(self):
        return ctx().branch(z3.Length(self.t) > 0)

    def __hash__(self):
        raise Unsupported("hash of symbolic str")

    def __fspath__(self):
        raise Unsupported("fspath of symbolic str reached a non-stubbed os function")

    def __format__(self, spec):
        return "<symstr>"

    def __repr__(self):
        return f"SStr({self.t})"

    def __str__(self):
        return "<symstr>"


def slen(s):
    return SInt(z3.Length(zstr(s)))


class SymSet:
    """List-backed set whose membership test is a disjunction of equalities (forks)."""

    def __init__(self, items=()):
        self.items = list(items)

    @staticmethod
    def _term(x):
        if isinstance(x, (SStr, str)):
            return zstr(x)
        return zint(x)

    def add(self, x):
        self.items.append(x)

    def __contains__(self, x):
        if x is None:
            return any(i is None for i in self.items)
        items = [i for i in self.items if i is not None]
        if not items:
            return False
        tx = self._term(x)
        return bool(SBool(z3.Or(*[tx == self._term(i) for i in items])))

    def discard(self, x):
        """remove every item equal to x (equality of symbolic strings forks the path)"""
        if x is None:
            self.items = [i for i in self.items if i is not None]
            return
        tx = self._term(x)
        keep = []
        for i in self.items:
            if i is None or not bool(SBool(tx == self._term(i))):
                keep.append(i)
        self.items = keep

    def remove(self, x):
        n = len(self.items)
        self.discard(x)
        if len(self.items) == n:
            raise KeyError(x)

    def clear(self):
        self.items = []

    def update(self, xs):
        for x in xs:
            self.add(x)

    def __len__(self):
        raise Unsupported("len of SymSet")

    def __iter__(self):
        return iter(self.items)


def sand(*bs):
    return SBool(z3.And(*[zbool(b) for b in bs])) if bs else SBool(z3.BoolVal(True))


def sor(*bs):
    return SBool(z3.Or(*[zbool(b) for b in bs])) if bs else SBool(z3.BoolVal(False))


def rebind(f, **globs):
    """The same byte-code as `f`, with some module globals replaced by shims/stubs."""
    if isinstance(f, (staticmethod, classmethod)):
        f = f.__func__
    g = types.FunctionType(f.__code__, {**f.__globals__, **globs}, f.__name__, f.__defaults__, f.__closure__)
    g.__kwdefaults__ = f.__kwdefaults__
    return g


# ---------------------------------------------------------------------------------------------
# exploration


class Result:
    def __init__(self):
        self.paths = 0
        self.queries = 0
        self.infeasible = 0
        self.solver_s = 0.0
        self.obligations = 0
        self.discharged = 0
        self.cex = None  # (model, info) of the first failing path
        self.unknown = []
        self.path_infos = []

    def stats(self):
        return dict(paths=self.paths, queries=self.queries, solver_s=self.solver_s,
                    obligations=self.obligations, discharged=self.discharged)


def _shrink(c, neg, small, model):
    """Prefer a counterexample with small integers: retry the failing query under growing bounds."""
    if not small:
        return model
    for bound in (8, 64, 1024, 4096 + 64, 65536 + 64, 1 << 21):
        r, m = c.check(neg, *[z3.And(t >= -bound, t <= bound) for t in small])
        if r == "sat":
            return m
    return model


def explore(fn, assumptions=(), max_paths=200000, timeout_ms=30000, stop_at_first=True, keep_infos=0, small=(), incremental=False) -> Result:
    """Run `fn()` once per feasible decision vector.

    `fn` returns the property of the path: a bool / SBool / z3 BoolRef, or a tuple
    (property, info) where info is any JSON-able description carried into the result.  An exception
    escaping `fn` (other than engine exceptions) is a harness error and propagates.
    """
    global CTX
    res = Result()
    state = PathState(list(assumptions), timeout_ms, incremental=incremental)
    while True:
        c = CTX = _Ctx(state)
        ok = True
        try:
            out = fn()
        except _Infeasible:
            ok = False
            res.infeasible += 1
        finally:
            CTX = None
        res.queries += c.queries
        res.solver_s += c.solver_s
        if ok:
            res.paths += 1
            if res.paths > max_paths:
                raise PathBudget(f"more than {max_paths} paths")
            info = None
            if isinstance(out, tuple):
                out, info = out
            if keep_infos and len(res.path_infos) < keep_infos:
                res.path_infos.append(info)
            term = zbool(out)
            res.obligations += 1
            term_s = z3.simplify(term)
            if z3.is_true(term_s):
                res.discharged += 1
            else:
                c.queries = 0
                c.solver_s = 0.0
                r, model = c.check(z3.Not(term))
                if r == "sat":
                    # harness-supplied preferences: stages of extra constraints that make the
                    # counterexample easier to realise concretely (first satisfiable stage wins)
                    if res.cex is None:
                        preferred = False
                        for stage in (info or {}).get("prefer", []) if isinstance(info, dict) else []:
                            r2, m2 = c.check(z3.Not(term), *stage)
                            if r2 == "sat":
                                model = m2
                                preferred = True
                                break
                        if not preferred:
                            model = _shrink(c, z3.Not(term), small, model)
                res.queries += c.queries
                res.solver_s += c.solver_s
                if r == "unsat":
                    res.discharged += 1
                elif r == "sat":
                    if res.cex is None:
                        res.cex = (model, info, list(c.pc))
                    if stop_at_first:
                        return res
                else:
                    res.unknown.append(info)
        if not state.next_path(c.pos if ok else None):
            return res


def model_int(model, term):
    v = model.eval(term, model_completion=True)
    return v.as_long()


def model_str(model, term):
    v = model.eval(term, model_completion=True)
    return v.as_string()


# ---------------------------------------------------------------------------------------------
# concrete replay: the same harness body, with plain Python values taken from the solver's model

MODEL = None  # set only inside concrete_run


def sym_int(term):
    """Symbolic proxy for `term` — or, during a concrete replay, the model's plain int."""
    if MODEL is not None:
        return model_int(MODEL, term)
    return SInt(term)


def sym_bool(term):
    if MODEL is not None:
        return z3.is_true(MODEL.eval(term, model_completion=True))
    return SBool(term)


def sym_str(term):
    if MODEL is not None:
        return model_str(MODEL, term)
    return SStr(term)


def concrete_run(fn, model):
    """Re-execute harness body `fn` outside the engine: every input is a plain Python value from
    `model`, no solver and no proxy is involved; the returned property formula is evaluated under the
    model.  Returns (holds, info)."""
    global MODEL, CTX
    assert CTX is None
    MODEL = model
    try:
        out = fn()
    finally:
        MODEL = None
    info = None
    if isinstance(out, tuple):
        out, info = out
    v = model.eval(zbool(out), model_completion=True)
    return z3.is_true(v), info
