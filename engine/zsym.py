"""E2 `zsym` — execution of real Python functions on z3-term proxies, with a re-execution DFS over
branch decisions.  Every `bool()` of a symbolic condition asks the solver which outcomes are feasible
under the current path condition; the function is re-executed once per feasible decision vector.  At
the end of a path the harness returns the property as a formula and the engine asks
`path condition AND assumptions AND NOT property`:  unsat on every path = holds for every value of
the symbolic variables; sat = model (concrete counterexample to replay); unknown = inconclusive.

The proxies deliberately do not subclass int/str: CPython would read a concrete value at C level.
"""
from __future__ import annotations

import time
import types

import z3


class Unsupported(Exception):
    """The code did something with a symbolic value that the proxies do not model."""


class _Infeasible(BaseException):
    pass


class PathBudget(Exception):
    pass


class _Ctx:
    def __init__(self, plan, assumptions, timeout_ms):
        self.plan = plan  # list of [value, flipped]
        self.pos = 0
        self.pc = []
        self.solver = z3.Solver()
        self.timeout_ms = timeout_ms
        self.solver.set("timeout", timeout_ms)
        self.solver.add(*assumptions)
        self.queries = 0
        self.solver_s = 0.0
        self.trace = []  # free-form event log the harness/stubs may append to

    def check(self, *extra):
        t = time.time()
        if DEADLINE is not None:
            left = DEADLINE - t
            if left <= 0:
                raise TimeBudget("wall-clock budget of the check exhausted")
            self.solver.set("timeout", int(min(self.timeout_ms, left * 1000 + 1)))
        self.solver.push()
        if extra:
            self.solver.add(*extra)
        self.queries += 1
        r = str(self.solver.check())
        model = self.solver.model() if r == "sat" else None
        self.solver.pop()
        self.solver_s += time.time() - t
        return r, model

    def _feasible(self, c):
        r, _ = self.check(c)
        if r == "unknown":
            raise Unsupported("solver answered unknown on a branch-feasibility query")
        return r == "sat"

    def branch(self, cond, payload=None):
        cond = z3.simplify(cond)
        if z3.is_true(cond):
            return True
        if z3.is_false(cond):
            return False
        if self.pos < len(self.plan):
            val = self.plan[self.pos][0]
            c = cond if val else z3.Not(cond)
            if self.pos == len(self.plan) - 1 and self.plan[self.pos][1]:
                if not self._feasible(c):  # freshly flipped decision
                    raise _Infeasible()
        else:
            if self._feasible(cond):
                val = True
            elif self._feasible(z3.Not(cond)):
                val = False
            else:
                raise _Infeasible()
            self.plan.append([val, False, payload])
            c = cond if val else z3.Not(cond)
        self.pos += 1
        self.pc.append(c)
        self.solver.add(c)
        return val

    def concretize(self, term, limit=64):
        """Fork over the feasible values of an integer term (list index, range bound, hash ...).
        The value tried at each plan position is recorded so that re-executions repeat it."""
        t = z3.simplify(term)
        if z3.is_int_value(t):
            return t.as_long()
        for _ in range(limit):
            if self.pos < len(self.plan):
                val = self.plan[self.pos][2]
                if val is None:
                    raise Unsupported("plan desynchronised at a concretisation point")
            else:
                r, m = self.check()
                if r != "sat":
                    if r == "unknown":
                        raise Unsupported("solver answered unknown while concretising")
                    raise _Infeasible()
                val = m.eval(t, model_completion=True).as_long()
            if self.branch(t == val, payload=val):
                return val
        raise Unsupported(f"more than {limit} feasible values for a concretised integer (unbounded payload reaches an index/range)")

    def assume(self, cond):
        """Constrain the rest of the path (e.g. a guard of a blocking call)."""
        self.pc.append(cond)
        self.solver.add(cond)


CTX: _Ctx | None = None
DEADLINE: float | None = None  # wall-clock limit of the running check (set by engine.common)


class TimeBudget(Exception):
    """The check's wall-clock budget is exhausted (=> inconclusive, never success)."""


def ctx() -> _Ctx:
    assert CTX is not None, "symbolic value used outside zsym.explore"
    return CTX


# ---------------------------------------------------------------------------------------------
# proxies


def zint(x):
    if isinstance(x, SInt):
        return x.t
    if isinstance(x, SBool):
        return z3.If(x.t, z3.IntVal(1), z3.IntVal(0))
    if isinstance(x, bool):
        return z3.IntVal(int(x))
    if isinstance(x, int):
        return z3.IntVal(x)
    if isinstance(x, z3.ArithRef):
        return x
    raise Unsupported(f"integer operand of type {type(x).__name__}")


def zreal(x):
    if isinstance(x, SReal):
        return x.t
    if isinstance(x, SInt):
        return z3.ToReal(x.t)
    if isinstance(x, bool):
        return z3.RealVal(int(x))
    if isinstance(x, int):
        return z3.RealVal(x)
    if isinstance(x, float):
        if x != x or x in (float("inf"), float("-inf")):
            raise Unsupported("non-finite float")
        return z3.RealVal(repr(x)) if x == int(x) or len(repr(x)) < 18 else z3.RealVal(x.as_integer_ratio()[0]) / z3.RealVal(x.as_integer_ratio()[1])
    raise Unsupported(f"real operand of type {type(x).__name__}")


def zbool(x):
    if isinstance(x, SBool):
        return x.t
    if isinstance(x, z3.BoolRef):
        return x
    if isinstance(x, (SInt,)):
        return x.t != 0
    return z3.BoolVal(bool(x))


class SBool:
    __slots__ = ("t",)

    def __init__(self, t):
        self.t = t

    def __bool__(self):
        return ctx().branch(self.t)

    def __and__(self, o):
        return SBool(z3.And(self.t, zbool(o)))

    __rand__ = __and__

    def __or__(self, o):
        return SBool(z3.Or(self.t, zbool(o)))

    __ror__ = __or__

    def __invert__(self):
        return SBool(z3.Not(self.t))

    def __eq__(self, o):
        return SBool(self.t == zbool(o))

    def __ne__(self, o):
        return SBool(self.t != zbool(o))

    def __hash__(self):
        raise Unsupported("hash of symbolic bool")

    def __repr__(self):
        return f"SBool({self.t})"

    def __format__(self, spec):
        return "<symbool>"


def _divmod(a, b):
    """Python floor division / modulo of z3 ints (z3's div/mod are Euclidean)."""
    c = ctx()
    if not c.branch(b != 0):
        raise ZeroDivisionError("integer division or modulo by zero")
    if c.branch(b > 0):
        return a / b, a % b
    q = z3.If(a % b == 0, a / b, a / b - 1)
    return q, a - q * b


class SInt:
    __slots__ = ("t",)

    def __init__(self, t):
        self.t = t if not isinstance(t, int) else z3.IntVal(t)

    def _num(self, o):
        return isinstance(o, (int, SInt, SBool)) and not isinstance(o, float)

    def __add__(self, o):
        if isinstance(o, (float, SReal)):
            return SReal(zreal(self) + zreal(o))
        return SInt(self.t + zint(o))

    __radd__ = __add__

    def __sub__(self, o):
        if isinstance(o, (float, SReal)):
            return SReal(zreal(self) - zreal(o))
        return SInt(self.t - zint(o))

    def __rsub__(self, o):
        if isinstance(o, (float, SReal)):
            return SReal(zreal(o) - zreal(self))
        return SInt(zint(o) - self.t)

    def __mul__(self, o):
        if isinstance(o, (float, SReal)):
            return SReal(zreal(self) * zreal(o))
        if isinstance(o, (tuple, list, str, bytes)):
            return o * self.__index__()
        return SInt(self.t * zint(o))

    __rmul__ = __mul__

    def __neg__(self):
        return SInt(-self.t)

    def __pos__(self):
        return self

    def __abs__(self):
        return SInt(z3.If(self.t >= 0, self.t, -self.t))

    def __floordiv__(self, o):
        return SInt(_divmod(self.t, zint(o))[0])

    def __rfloordiv__(self, o):
        return SInt(_divmod(zint(o), self.t)[0])

    def __mod__(self, o):
        return SInt(_divmod(self.t, zint(o))[1])

    def __rmod__(self, o):
        return SInt(_divmod(zint(o), self.t)[1])

    def __divmod__(self, o):
        q, r = _divmod(self.t, zint(o))
        return SInt(q), SInt(r)

    def __truediv__(self, o):
        d = zreal(o)
        if not ctx().branch(d != 0):
            raise ZeroDivisionError("division by zero")
        return SReal(zreal(self) / d)

    def __rtruediv__(self, o):
        if not ctx().branch(self.t != 0):
            raise ZeroDivisionError("division by zero")
        return SReal(zreal(o) / zreal(self))

    def _cmp(self, o, f):
        if isinstance(o, (float, SReal)):
            return SBool(f(zreal(self), zreal(o)))
        return SBool(f(self.t, zint(o)))

    def __lt__(self, o):
        return self._cmp(o, lambda a, b: a < b)

    def __le__(self, o):
        return self._cmp(o, lambda a, b: a <= b)

    def __gt__(self, o):
        return self._cmp(o, lambda a, b: a > b)

    def __ge__(self, o):
        return self._cmp(o, lambda a, b: a >= b)

    def __eq__(self, o):
        if o is None or isinstance(o, (str, bytes, tuple, list)):
            return False
        return self._cmp(o, lambda a, b: a == b)

    def __ne__(self, o):
        if o is None or isinstance(o, (str, bytes, tuple, list)):
            return True
        return self._cmp(o, lambda a, b: a != b)

    def __bool__(self):
        return ctx().branch(self.t != 0)

    def __hash__(self):
        return hash(self.__index__())

    def __index__(self):
        v = z3.simplify(self.t)
        if z3.is_int_value(v):
            return v.as_long()
        return ctx().concretize(self.t)

    __int__ = __index__

    def __ceil__(self):
        return self

    __floor__ = __ceil__
    __trunc__ = __ceil__

    def __repr__(self):
        return f"SInt({self.t})"

    def __format__(self, spec):
        return "<symint>"


class SReal:
    """Exact rational stand-in for the float products `itemsize * size` and `bitwidth * size / 8`.
    Real arithmetic equals float arithmetic while all operands are < 2**50 (stated bound)."""

    __slots__ = ("t",)

    def __init__(self, t):
        self.t = t

    def __add__(self, o):
        return SReal(self.t + zreal(o))

    __radd__ = __add__

    def __sub__(self, o):
        return SReal(self.t - zreal(o))

    def __rsub__(self, o):
        return SReal(zreal(o) - self.t)

    def __mul__(self, o):
        return SReal(self.t * zreal(o))

    __rmul__ = __mul__

    def __truediv__(self, o):
        d = zreal(o)
        if not ctx().branch(d != 0):
            raise ZeroDivisionError("division by zero")
        return SReal(self.t / d)

    def __neg__(self):
        return SReal(-self.t)

    def __floor__(self):
        return SInt(z3.ToInt(self.t))

    def __ceil__(self):
        return SInt(-z3.ToInt(-self.t))

    def __trunc__(self):
        return SInt(z3.If(self.t >= 0, z3.ToInt(self.t), -z3.ToInt(-self.t)))

    __int__ = __trunc__

    def _cmp(self, o, f):
        return SBool(f(self.t, zreal(o)))

    def __lt__(self, o):
        return self._cmp(o, lambda a, b: a < b)

    def __le__(self, o):
        return self._cmp(o, lambda a, b: a <= b)

    def __gt__(self, o):
        return self._cmp(o, lambda a, b: a > b)

    def __ge__(self, o):
        return self._cmp(o, lambda a, b: a >= b)

    def __eq__(self, o):
        if o is None:
            return False
        return self._cmp(o, lambda a, b: a == b)

    def __ne__(self, o):
        if o is None:
            return True
        return self._cmp(o, lambda a, b: a != b)

    def __hash__(self):
        raise Unsupported("hash of symbolic real")

    def __repr__(self):
        return f"SReal({self.t})"

    def __format__(self, spec):
        return "<symreal>"


def zstr(x):
    if isinstance(x, SStr):
        return x.t
    if isinstance(x, str):
        return z3.StringVal(x)
    raise Unsupported(f"string operand of type {type(x).__name__}")


class SStr:
    """z3 String proxy: equality, concatenation, prefix/suffix/containment, length."""

    __slots__ = ("t",)

    def __init__(self, t):
        self.t = t if not isinstance(t, str) else z3.StringVal(t)

    def __eq__(self, o):
        if not isinstance(o, (str, SStr)):
            return False
        return SBool(self.t == zstr(o))

    def __ne__(self, o):
        if not isinstance(o, (str, SStr)):
            return True
        return SBool(self.t != zstr(o))

    def __add__(self, o):
        return SStr(z3.Concat(self.t, zstr(o)))

    def __radd__(self, o):
        return SStr(z3.Concat(zstr(o), self.t))

    def startswith(self, p):
        if isinstance(p, tuple):
            return SBool(z3.Or(*[z3.PrefixOf(zstr(q), self.t) for q in p]))
        return SBool(z3.PrefixOf(zstr(p), self.t))

    def endswith(self, p):
        if isinstance(p, tuple):
            return SBool(z3.Or(*[z3.SuffixOf(zstr(q), self.t) for q in p]))
        return SBool(z3.SuffixOf(zstr(p), self.t))

    def __contains__(self, p):
        return bool(SBool(z3.Contains(self.t, zstr(p))))

    def __len__(self):
        raise Unsupported("len() of a symbolic str must stay symbolic: use zsym.slen")

    def __bool__(self):
        return ctx().branch(z3.Length(self.t) > 0)

    def __hash__(self):
        raise Unsupported("hash of symbolic str")

    def __fspath__(self):
        raise Unsupported("fspath of symbolic str reached a non-stubbed os function")

    def __format__(self, spec):
        return "<symstr>"

    def __repr__(self):
        return f"SStr({self.t})"

    def __str__(self):
        return "<symstr>"


def slen(s):
    return SInt(z3.Length(zstr(s)))


class SymSet:
    """List-backed set whose membership test is a disjunction of equalities (forks)."""

    def __init__(self, items=()):
        self.items = list(items)

    @staticmethod
    def _term(x):
        if isinstance(x, (SStr, str)):
            return zstr(x)
        return zint(x)

    def add(self, x):
        self.items.append(x)

    def __contains__(self, x):
        if x is None:
            return any(i is None for i in self.items)
        items = [i for i in self.items if i is not None]
        if not items:
            return False
        tx = self._term(x)
        return bool(SBool(z3.Or(*[tx == self._term(i) for i in items])))

    def __len__(self):
        raise Unsupported("len of SymSet")

    def __iter__(self):
        return iter(self.items)


def sand(*bs):
    return SBool(z3.And(*[zbool(b) for b in bs])) if bs else SBool(z3.BoolVal(True))


def sor(*bs):
    return SBool(z3.Or(*[zbool(b) for b in bs])) if bs else SBool(z3.BoolVal(False))


def rebind(f, **globs):
    """The same byte-code as `f`, with some module globals replaced by shims/stubs."""
    if isinstance(f, (staticmethod, classmethod)):
        f = f.__func__
    g = types.FunctionType(f.__code__, {**f.__globals__, **globs}, f.__name__, f.__defaults__, f.__closure__)
    g.__kwdefaults__ = f.__kwdefaults__
    return g


# ---------------------------------------------------------------------------------------------
# exploration


class Result:
    def __init__(self):
        self.paths = 0
        self.queries = 0
        self.infeasible = 0
        self.solver_s = 0.0
        self.obligations = 0
        self.discharged = 0
        self.cex = None  # (model, info) of the first failing path
        self.unknown = []
        self.path_infos = []

    def stats(self):
        return dict(paths=self.paths, queries=self.queries, solver_s=self.solver_s,
                    obligations=self.obligations, discharged=self.discharged)


def _shrink(c, neg, small, model):
    """Prefer a counterexample with small integers: retry the failing query under growing bounds."""
    if not small:
        return model
    for bound in (8, 64, 1024, 4096 + 64, 65536 + 64, 1 << 21):
        r, m = c.check(neg, *[z3.And(t >= -bound, t <= bound) for t in small])
        if r == "sat":
            return m
    return model


def explore(fn, assumptions=(), max_paths=200000, timeout_ms=30000, stop_at_first=True, keep_infos=0, small=()) -> Result:
    """Run `fn()` once per feasible decision vector.

    `fn` returns the property of the path: a bool / SBool / z3 BoolRef, or a tuple
    (property, info) where info is any JSON-able description carried into the result.  An exception
    escaping `fn` (other than engine exceptions) is a harness error and propagates.
    """
    global CTX
    res = Result()
    plan: list = []
    while True:
        c = CTX = _Ctx(plan, list(assumptions), timeout_ms)
        ok = True
        try:
            out = fn()
        except _Infeasible:
            ok = False
            res.infeasible += 1
        finally:
            CTX = None
        res.queries += c.queries
        res.solver_s += c.solver_s
        if ok:
            res.paths += 1
            if res.paths > max_paths:
                raise PathBudget(f"more than {max_paths} paths")
            info = None
            if isinstance(out, tuple):
                out, info = out
            if keep_infos and len(res.path_infos) < keep_infos:
                res.path_infos.append(info)
            term = zbool(out)
            res.obligations += 1
            term_s = z3.simplify(term)
            if z3.is_true(term_s):
                res.discharged += 1
            else:
                c.queries = 0
                c.solver_s = 0.0
                r, model = c.check(z3.Not(term))
                res.queries += c.queries
                res.solver_s += c.solver_s
                if r == "unsat":
                    res.discharged += 1
                elif r == "sat":
                    if res.cex is None:
                        # harness-supplied preferences: stages of extra constraints that make the
                        # counterexample easier to realise concretely (first satisfiable stage wins)
                        for stage in (info or {}).get("prefer", []) if isinstance(info, dict) else []:
                            r2, m2 = c.check(z3.Not(term), *stage)
                            if r2 == "sat":
                                model = m2
                                break
                        model = _shrink(c, z3.Not(term), small, model)
                        res.cex = (model, info, list(c.pc))
                    if stop_at_first:
                        return res
                else:
                    res.unknown.append(info)
            plan = plan[: c.pos]
        while plan and plan[-1][1]:
            plan.pop()
        if not plan:
            return res
        plan[-1] = [not plan[-1][0], True, plan[-1][2] if len(plan[-1]) > 2 else None]


def model_int(model, term):
    v = model.eval(term, model_completion=True)
    return v.as_long()


def model_str(model, term):
    v = model.eval(term, model_completion=True)
    return v.as_string()


# ---------------------------------------------------------------------------------------------
# concrete replay: the same harness body, with plain Python values taken from the solver's model

MODEL = None  # set only inside concrete_run


def sym_int(term):
    """Symbolic proxy for `term` — or, during a concrete replay, the model's plain int."""
    if MODEL is not None:
        return model_int(MODEL, term)
    return SInt(term)


def sym_bool(term):
    if MODEL is not None:
        return z3.is_true(MODEL.eval(term, model_completion=True))
    return SBool(term)


def sym_str(term):
    if MODEL is not None:
        return model_str(MODEL, term)
    return SStr(term)


def concrete_run(fn, model):
    """Re-execute harness body `fn` outside the engine: every input is a plain Python value from
    `model`, no solver and no proxy is involved; the returned property formula is evaluated under the
    model.  Returns (holds, info)."""
    global MODEL, CTX
    assert CTX is None
    MODEL = model
    try:
        out = fn()
    finally:
        MODEL = None
    info = None
    if isinstance(out, tuple):
        out, info = out
    v = model.eval(zbool(out), model_completion=True)
    return z3.is_true(v), info
