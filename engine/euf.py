"""E4 - translation validation of graph transformations by uninterpreted functions (EUF).

A model (IR object graph) is encoded as z3 terms over one uninterpreted sort T:

* a non-initializer graph input is the free constant `in<i>` of its POSITION among such inputs;
* an initializer / Constant payload is a content-addressed constant K_<sha1(dtype, shape, bytes)>;
* output k of a node is  F_<domain|op|overload|arity|attributes|k>(input terms...)  where the attribute
  part is completed with the ONNX schema defaults of the opset in scope (so default-filling is a
  semantic no-op), trailing omitted inputs are trimmed, an omitted input is the constant `none`;
* Identity is interpreted (its output IS its input);  random operators carry a per-occurrence nonce;
* a control-flow node additionally receives, as arguments, the output terms of each body encoded with
  CANONICAL formal parameters (P<depth>_<i>) and with captured outer values replaced by their real
  outer terms - alpha-equivalent bodies therefore give the same function application, and a change in
  what a body computes or captures changes the term;
* a call of a model-local function is interpreted by its body with arguments and attribute parameters
  substituted (call-site value, else the declared default).

`equivalent(before_terms, after_terms)` asks z3 whether some interpretation of the function symbols and
some inputs distinguish two outputs at the same position; unsat = the two artefacts compute the same
outputs for ALL inputs and ALL operator semantics.
"""
from __future__ import annotations

import hashlib
import time

import numpy as np
import onnx
import z3

import onnx_ir as ir

RANDOM_OPS = {"RandomUniform", "RandomNormal", "RandomUniformLike", "RandomNormalLike", "Multinomial", "Bernoulli", "Dropout_train"}


class EncodingError(Exception):
    pass


class Universe:
    """symbol tables shared by all encodings that are compared with each other"""

    def __init__(self):
        self.T = z3.DeclareSort("T")
        self.funcs: dict = {}
        self.consts: dict = {}
        self.none = self.const("none")

    def const(self, name):
        c = self.consts.get(name)
        if c is None:
            c = self.consts[name] = z3.Const(name, self.T)
        return c

    def func(self, key, arity):
        k = (key, arity)
        f = self.funcs.get(k)
        if f is None:
            name = f"F{len(self.funcs)}_{key[1] if isinstance(key, tuple) and len(key) > 1 else key}"
            f = self.funcs[k] = z3.Function(name, *([self.T] * arity), self.T)
        return f

    def apply(self, key, args):
        if not args:
            return self.const("C_" + hashlib.sha1(repr(key).encode()).hexdigest()[:16])
        return self.func(key, len(args))(*args)


def tensor_digest(t) -> str:
    if t is None:
        return "no-tensor"
    try:
        if isinstance(t, ir.StringTensor) or t.dtype == ir.DataType.STRING:
            data = repr(list(np.asarray(t.numpy()).ravel().tolist())).encode()
        else:
            data = t.tobytes()
    except Exception as e:  # noqa: BLE001
        raise EncodingError(f"tensor {getattr(t, 'name', None)!r} cannot be read: {type(e).__name__}: {e}") from e
    h = hashlib.sha1()
    h.update(str(int(t.dtype)).encode())
    h.update(repr(tuple(t.shape.numpy()) if hasattr(t.shape, "numpy") else tuple(t.shape)).encode())
    h.update(bytes(data))
    return h.hexdigest()[:20]


def _np_digest(arr, dtype) -> str:
    arr = np.asarray(arr)
    h = hashlib.sha1()
    h.update(str(int(dtype)).encode())
    h.update(repr(tuple(arr.shape)).encode())
    h.update(arr.tobytes())
    return h.hexdigest()[:20]


def _attr_canon(a: ir.Attr):
    t = a.type
    v = a.value
    AT = ir.AttributeType
    if t == AT.INT:
        return ("i", int(v))
    if t == AT.FLOAT:
        return ("f", np.float32(v).tobytes().hex())
    if t == AT.STRING:
        return ("s", v if isinstance(v, str) else bytes(v).decode("utf-8", "replace"))
    if t == AT.INTS:
        return ("is", tuple(int(x) for x in v))
    if t == AT.FLOATS:
        return ("fs", tuple(np.float32(x).tobytes().hex() for x in v))
    if t == AT.STRINGS:
        return ("ss", tuple(x if isinstance(x, str) else bytes(x).decode("utf-8", "replace") for x in v))
    if t == AT.TENSOR:
        return ("t", tensor_digest(v))
    if t == AT.TENSORS:
        return ("ts", tuple(tensor_digest(x) for x in v))
    if t == AT.TYPE_PROTO:
        return ("tp", repr(v))
    if t == AT.TYPE_PROTOS:
        return ("tps", tuple(repr(x) for x in v))
    if t == AT.SPARSE_TENSOR or t == AT.SPARSE_TENSORS:
        return ("sparse", repr(v))
    raise EncodingError(f"attribute type {t}")


def _proto_attr_canon(p: onnx.AttributeProto):
    AP = onnx.AttributeProto
    if p.type == AP.INT:
        return ("i", int(p.i))
    if p.type == AP.FLOAT:
        return ("f", np.float32(p.f).tobytes().hex())
    if p.type == AP.STRING:
        return ("s", p.s.decode("utf-8", "replace"))
    if p.type == AP.INTS:
        return ("is", tuple(int(x) for x in p.ints))
    if p.type == AP.FLOATS:
        return ("fs", tuple(np.float32(x).tobytes().hex() for x in p.floats))
    if p.type == AP.STRINGS:
        return ("ss", tuple(x.decode("utf-8", "replace") for x in p.strings))
    return None


_SCHEMA_CACHE: dict = {}


def schema_defaults(domain, op_type, version):
    key = (domain, op_type, version)
    if key not in _SCHEMA_CACHE:
        out = {}
        try:
            sch = onnx.defs.get_schema(op_type, version, domain=domain)
            for name, ad in sch.attributes.items():
                if ad.required:
                    continue
                dv = ad.default_value
                if dv is None or dv.type == onnx.AttributeProto.UNDEFINED:
                    continue
                c = _proto_attr_canon(dv)
                if c is not None:
                    out[name] = c
        except Exception:  # noqa: BLE001  (unknown operator: no defaults)
            pass
        _SCHEMA_CACHE[key] = out
    return _SCHEMA_CACHE[key]


def _norm_domain(d):
    return "" if d in ("", "ai.onnx") else d


class Encoder:
    def __init__(self, universe: Universe, model: ir.Model | None = None, functions=None, opset_imports=None):
        self.u = universe
        self.model = model
        self.functions = dict(functions if functions is not None else (model.functions if model is not None else {}))
        self.opsets = dict(opset_imports if opset_imports is not None else (model.opset_imports if model is not None else {}))
        self.random_seen = 0
        self.call_depth = 0
        self.body_depth = 0

    # ---- public ------------------------------------------------------------------------------
    def encode_model(self):
        g = self.model.graph
        return self.encode_graph_outputs(g, {}, input_prefix="in")

    def encode_graph_outputs(self, g, env, input_prefix="in", bind_inputs=None, opsets=None):
        """terms of g.outputs; non-initializer inputs are bound by position to `in<i>` constants (or to the
        terms given in bind_inputs: dict id(value) -> term)"""
        env = dict(env)
        inits = {id(v) for v in g.initializers.values()}
        pos = 0
        for v in g.inputs:
            if bind_inputs is not None and id(v) in bind_inputs:
                env[id(v)] = bind_inputs[id(v)]
                continue
            if id(v) in inits and v.const_value is not None:
                continue
            env[id(v)] = self.u.const(f"{input_prefix}{pos}")
            pos += 1
        ops = dict(self.opsets)
        ops.update(getattr(g, "opset_imports", {}) or {})
        if opsets:
            ops.update(opsets)
        term_of = self._activation(env, ops)
        return [term_of(v) for v in g.outputs], pos

    # ---- internals ---------------------------------------------------------------------------
    def _activation(self, env, opsets, attr_env=None):
        """term_of(value) for one activation (the main graph, or one call of a function): `env` is shared by all
        nested bodies of the activation because values are identified by object identity"""
        stack = set()

        def term_of(v):
            if v is None:
                return self.u.none
            t = env.get(id(v))
            if t is not None:
                return t
            p = v.producer()
            if p is None:
                if v.const_value is not None and v.is_initializer():
                    t = self.u.const("K_" + tensor_digest(v.const_value))
                elif v.is_initializer():
                    t = self.u.const(f"uninit_{v.name}")
                else:
                    # neither produced, nor an input bound by an enclosing construct, nor an initializer
                    t = self.u.const(f"dangling_{v.name}")
                env[id(v)] = t
                return t
            if id(p) in stack:
                raise EncodingError(f"cyclic dependency through node {p.name}")
            stack.add(id(p))
            try:
                outs = self._encode_node(p, term_of, env, opsets, attr_env)
            finally:
                stack.discard(id(p))
            for o, t in zip(p.outputs, outs):
                env[id(o)] = t
            return env[id(v)]

        return term_of

    def _version(self, node, opsets):
        if node.version is not None:
            return node.version
        d = node.domain
        if d in opsets:
            return opsets[d]
        if _norm_domain(d) == "":
            return opsets.get("", opsets.get("ai.onnx"))
        return None

    def _attrs_key(self, node, opsets, attr_env):
        items = {}
        for name, a in node.attributes.items():
            if a.type in (ir.AttributeType.GRAPH, ir.AttributeType.GRAPHS):
                continue
            if a.is_ref():
                if attr_env is None:
                    items[name] = ("ref", a.ref_attr_name)
                    continue
                sub = attr_env.get(a.ref_attr_name)
                if sub is None:
                    continue  # parameter neither passed nor defaulted: the attribute is absent
                items[name] = sub
            else:
                items[name] = _attr_canon(a)
        ver = self._version(node, opsets)
        if ver is not None:
            for name, c in schema_defaults(node.domain if node.domain != "ai.onnx" else "", node.op_type, ver).items():
                items.setdefault(name, c)
        return tuple(sorted(items.items()))

    def _encode_node(self, node, term_of, env, opsets, attr_env):
        dom = _norm_domain(node.domain)
        ins = list(node.inputs)
        while ins and ins[-1] is None:
            ins.pop()
        args = [term_of(v) for v in ins]
        nout = len(node.outputs)
        # interpreted operators
        if dom == "" and node.op_type == "Identity" and len(args) == 1 and nout == 1:
            return [args[0]]
        if dom == "" and node.op_type == "Constant" and not args:
            k = self._constant_term(node, attr_env)
            if k is not None:
                return [k]
        fid = (node.domain if node.domain != "ai.onnx" else "", node.op_type, node.overload)
        fn = self.functions.get(fid) or self.functions.get((dom, node.op_type, node.overload))
        if fn is not None:
            return self._inline(fn, node, args, opsets, attr_env)
        akey = self._attrs_key(node, opsets, attr_env)
        extra = []
        bodies = []
        for name, a in sorted(node.attributes.items()):
            if a.type == ir.AttributeType.GRAPH:
                bodies.append((name, [a.value]))
            elif a.type == ir.AttributeType.GRAPHS:
                bodies.append((name, list(a.value)))
        shape_key = []
        for name, gs in bodies:
            for bi, body in enumerate(gs):
                outs = self._encode_body(body, env, term_of)
                ninit = {id(v) for v in body.initializers.values() if v.const_value is not None}
                shape_key.append((name, bi, sum(1 for v in body.inputs if id(v) not in ninit), len(outs)))
                extra.extend(outs)
        if dom == "" and node.op_type in RANDOM_OPS:
            self.random_seen += 1
            extra.append(self.u.const(f"nonce{self.random_seen}"))
        key_base = (dom, node.op_type, node.overload, len(args), akey, tuple(shape_key))
        return [self.u.apply(key_base + (k,), args + extra) for k in range(nout)]

    def _encode_body(self, body, env, term_of):
        """output terms of a control-flow body: formal parameters are canonical constants (by nesting depth and
        position), everything else is resolved in the enclosing activation"""
        self.body_depth += 1
        try:
            inits = {id(v) for v in body.initializers.values()}
            for i, v in enumerate(body.inputs):
                if id(v) in inits and v.const_value is not None:
                    continue
                env[id(v)] = self.u.const(f"P{self.body_depth}_{i}")
            return [term_of(v) for v in body.outputs]
        finally:
            self.body_depth -= 1

    def _constant_term(self, node, attr_env):
        attrs = {k: a for k, a in node.attributes.items()}
        if len(attrs) != 1:
            return None
        (name, a), = attrs.items()
        if a.is_ref():
            return None
        DT = ir.DataType
        try:
            if name == "value":
                return self.u.const("K_" + tensor_digest(a.value))
            if name == "value_int":
                return self.u.const("K_" + _np_digest(np.array(a.value, dtype=np.int64), DT.INT64))
            if name == "value_ints":
                return self.u.const("K_" + _np_digest(np.array(list(a.value), dtype=np.int64), DT.INT64))
            if name == "value_float":
                return self.u.const("K_" + _np_digest(np.array(a.value, dtype=np.float32), DT.FLOAT))
            if name == "value_floats":
                return self.u.const("K_" + _np_digest(np.array(list(a.value), dtype=np.float32), DT.FLOAT))
        except EncodingError:
            raise
        except Exception:  # noqa: BLE001
            return None
        return None

    def _inline(self, fn, node, args, opsets, attr_env):
        if self.call_depth > 8:
            raise EncodingError("function call nesting deeper than 8 (recursion?)")
        fenv = {}
        for i, v in enumerate(fn.inputs):
            fenv[id(v)] = args[i] if i < len(args) else self.u.none
        # attribute parameters: call-site value (possibly itself a reference into the caller), else declared default
        new_attr_env = {}
        for pname, pattr in fn.attributes.items():
            passed = node.attributes.get(pname)
            if passed is not None:
                if passed.is_ref():
                    if attr_env is not None and attr_env.get(passed.ref_attr_name) is not None:
                        new_attr_env[pname] = attr_env[passed.ref_attr_name]
                    continue
                if passed.type not in (ir.AttributeType.GRAPH, ir.AttributeType.GRAPHS):
                    new_attr_env[pname] = _attr_canon(passed)
            elif pattr is not None and getattr(pattr, "value", None) is not None and not pattr.is_ref():
                new_attr_env[pname] = _attr_canon(pattr)
        fops = dict(opsets)
        fops.update(fn.opset_imports or {})
        self.call_depth += 1
        try:
            term_of = self._activation(fenv, fops, new_attr_env)
            outs = [term_of(v) for v in fn.outputs]
        finally:
            self.call_depth -= 1
        n = len(node.outputs)
        return outs[:n] + [self.u.const(f"missing_fn_output_{k}") for k in range(len(outs), n)]


def equivalent(u: Universe, before, after, timeout_ms=20000):
    """('unsat'|'sat'|'unknown', index of a differing output or None, solver seconds)"""
    if len(before) != len(after):
        return "sat", -1, 0.0
    diffs = [i for i, (b, a) in enumerate(zip(before, after)) if not b.eq(a)] or list(range(len(before)))
    if not before:
        return "unsat", None, 0.0
    s = z3.Solver()
    s.set("timeout", timeout_ms)
    s.add(z3.Or(*[before[i] != after[i] for i in diffs]))
    t = time.time()
    r = str(s.check())
    dt = time.time() - t
    if r == "sat":
        m = s.model()
        for i in diffs:
            if not z3.is_true(m.eval(before[i] == after[i], model_completion=True)):
                return "sat", i, dt
        return "sat", diffs[0], dt
    return r, None, dt
