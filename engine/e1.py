"""E1 — CrossHair bounded symbolic driver.

A harness is a Python function with a PEP-316 contract whose int parameters are choice variables
(operation / operand selectors) and payload values handed to the real API.  CrossHair (z3) explores
its paths; verdicts map as

  CONFIRMED ("Confirmed over all paths")      -> the bounded claim holds
  POST_FAIL / EXEC_ERR / POST_ERR             -> candidate counterexample -> concrete replay
  CANNOT_CONFIRM / PRE_UNSAT / anything else  -> inconclusive (never success)

Contract functions are generated into a scratch module at run time (one function per shard, e.g.
per (seed, first operation)), analysed in worker processes, and every counterexample is replayed by
calling the same function with the concrete arguments outside CrossHair.
"""
from __future__ import annotations

import importlib.util
import multiprocessing as mp
import os
import re
import sys
import time

from engine import common

SCRATCH = os.path.join(common.ROOT, "scratch")

_TICKS = {"paths": 0, "oracle": 0}


def tick_path():
    _TICKS["paths"] += 1


def tick_oracle():
    _TICKS["oracle"] += 1


def write_module(name: str, source: str) -> str:
    os.makedirs(SCRATCH, exist_ok=True)
    path = os.path.join(SCRATCH, f"{name}.py")
    with open(path, "w") as f:
        f.write(source)
    return path


def load_module(path: str):
    name = "vf_gen_" + os.path.splitext(os.path.basename(path))[0]
    spec = importlib.util.spec_from_file_location(name, path)
    mod = importlib.util.module_from_spec(spec)
    sys.modules[name] = mod
    spec.loader.exec_module(mod)
    return mod


def _analyse(args):
    path, fname, timeout = args
    from crosshair.core_and_libs import AnalysisKind, MessageType, analyze_function, run_checkables
    from crosshair.options import DEFAULT_OPTIONS, AnalysisOptionSet

    mod = load_module(path)
    fn = getattr(mod, fname)
    _TICKS["paths"] = _TICKS["oracle"] = 0
    import collections

    stats = collections.Counter()
    opts = DEFAULT_OPTIONS.overlay(AnalysisOptionSet(
        analysis_kind=[AnalysisKind.PEP316], per_condition_timeout=timeout, per_path_timeout=max(10.0, timeout / 4),
        max_uninteresting_iterations=10 ** 9, report_all=True, stats=stats))
    t0 = time.time()
    try:
        msgs = run_checkables(analyze_function(fn, opts))
        out = [(m.state.name, m.message) for m in msgs]
    except BaseException as e:  # noqa: CrossHair internal failure -> inconclusive
        out = [("DRIVER_ERROR", f"{type(e).__name__}: {e}")]
    return dict(fn=fname, msgs=out, wall=time.time() - t0, paths=_TICKS["paths"], oracle=_TICKS["oracle"],
                stats={k: v for k, v in stats.items() if isinstance(v, (int, float))})


_CALL_RE = re.compile(r"when calling (\w+)\((.*?)\)(?: \(which returns.*)?$", re.S)


def parse_call(message: str):
    m = _CALL_RE.search(message)
    if not m:
        return None
    try:
        a, k = eval(f"(lambda *a, **k: (a, k))({m.group(2)})", {"__builtins__": {}}, {})
    except Exception:
        return None
    return m.group(1), a, k


def run(chk: common.Check, path: str, fnames, timeout: float, replay, sig_of, nproc=None, describe=None):
    """Analyse every function; `replay(fname, args, kwargs) -> (violated: bool, detail, record)` re-executes
    concretely; `sig_of(fname, record)` names the known-findings signature."""
    from engine import zsym

    nproc = nproc or int(os.environ.get("VERIF_JOBS", "0") or 0) or min(16, os.cpu_count() or 4)
    jobs = [(path, f, timeout) for f in fnames]
    results = []
    with mp.get_context("fork").Pool(min(nproc, max(1, len(jobs)))) as pool:
        it = pool.imap_unordered(_analyse, jobs, chunksize=1)
        done = 0
        while done < len(jobs):
            left = (zsym.DEADLINE - time.time() + 30) if zsym.DEADLINE else None
            try:
                r = it.next(timeout=left)
            except StopIteration:
                break
            except mp.TimeoutError:
                pool.terminate()
                chk.note_inconclusive(f"wall-clock budget exhausted with {len(jobs) - done} contract(s) unfinished")
                break
            done += 1
            results.append(r)
    for r in sorted(results, key=lambda r: r["fn"]):
        chk.obligations += 1
        chk.paths += r["paths"]
        chk.queries += int(r["stats"].get("num_paths", 0)) or r["paths"]
        chk.solver_s += r["wall"]
        label = describe(r["fn"]) if describe else r["fn"]
        chk.case(label)
        states = [s for s, _ in r["msgs"]]
        if states == ["CONFIRMED"]:
            if r["oracle"] < 1:
                chk.note_inconclusive(f"{label}: confirmed but the oracle was never reached (vacuous harness)")
            else:
                chk.discharged += 1
                chk.vacuity_ok(f"{label}: oracle reached on {r['oracle']} of {r['paths']} paths") if len(chk.vacuity) < 8 else None
                chk.sample({"contract": label, "verdict": "Confirmed over all paths", "paths": r["paths"], "cpu_s": round(r["wall"], 1)})
            continue
        handled = False
        for state, msg in r["msgs"]:
            if state in ("POST_FAIL", "EXEC_ERR", "POST_ERR"):
                call = parse_call(msg)
                if call is None:
                    chk.note_inconclusive(f"{label}: counterexample could not be parsed: {msg[:200]}")
                    handled = True
                    continue
                _, a, k = call
                violated, detail, record = replay(r["fn"], a, k)
                if violated:
                    chk.violation(sig_of(r["fn"], record), f"{label}: {detail}", dict(contract=r["fn"], args=list(a), kwargs=k, **record))
                else:
                    chk.note_inconclusive(f"{label}: CrossHair counterexample {a} {k} did not reproduce concretely ({detail})")
                handled = True
        if not handled:
            chk.note_inconclusive(f"{label}: {r['msgs']} after {r['paths']} paths / {r['wall']:.0f}s CPU (not confirmed)")
    return results
