"""Virtual threads for the synchronisation code (C09, and the parallel paths of C08).

The real code of /repo is executed unchanged; only its module globals `threading` and `concurrent`
are replaced by the stand-ins below.  Every thread the code starts is a greenlet, and control moves
between them only at *synchronisation points* (lock acquisition, condition wait, future wait, executor
submit/shutdown, and the points a harness declares, e.g. the materialisation of a tensor).  Which
runnable thread moves next is decided by a `choose(n)` callback - in the checks a symbolic integer that
the engine forks over - so every interleaving at synchronisation points (within a preemption bound) is
explored, and the guards of blocking calls (`Condition.wait_for(pred)`) are evaluated on symbolic
values, i.e. decided by the solver.

Contracts assumed (documented behaviour of CPython's primitives):
  Lock              mutual exclusion; acquire blocks while owned
  Condition         wait() atomically releases the lock and sleeps until notified, then re-acquires;
                    wait_for(p) = `while not p(): wait()`; notify(n) wakes at most n sleepers (WHICH
                    ones is a scheduler choice), notify_all() wakes all
  ThreadPoolExecutor at most max_workers worker threads, each taking queued work items one at a time in
                    FIFO order; a work item's exception is stored in its future; shutdown(wait,
                    cancel_futures) cancels queued items / waits for the workers
  as_completed      yields futures in completion order
  threading.local   one attribute namespace per thread
"""
from __future__ import annotations

import types

import greenlet

from engine import zsym


class Deadlock(Exception):
    pass


class SchedulerError(Exception):
    """misuse of a primitive by the code under test (release of an unowned lock, wait without lock)"""


class VThread:
    def __init__(self, sched, fn, name):
        self.sched = sched
        self.name = name
        self.tid = len(sched.threads)
        self.state = "runnable"   # "runnable" | ("lock", L) | ("sleep", C) | ("wait", pred, label) | "done"
        self.result = None
        self.exc = None
        self.g = greenlet.greenlet(self._run, parent=sched.root)
        self.fn = fn

    def _run(self):
        try:
            self.result = self.fn()
        except greenlet.GreenletExit:
            raise
        except BaseException as e:  # noqa: BLE001
            if _engine_exc(e):
                self.sched.aborting = True
                self.state = "done"
                raise
            self.exc = e
        self.state = "done"

    def enabled(self):
        s = self.state
        if s == "runnable":
            return True
        if s == "done":
            return False
        if s[0] == "lock":
            return s[1].owner is None or (s[1].reentrant and s[1].owner is self)
        if s[0] == "sleep":
            return False
        if s[0] == "wait":
            return bool(s[1]())
        raise AssertionError(s)

    def describe(self):
        s = self.state
        if isinstance(s, tuple):
            if s[0] == "lock":
                return f"{self.name}: blocked on {s[1].label} held by {getattr(s[1].owner, 'name', None)}"
            if s[0] == "sleep":
                return f"{self.name}: asleep in {s[1].label}.wait()"
            return f"{self.name}: waiting for {s[2]}"
        return f"{self.name}: {s}"


def _engine_exc(e):
    return isinstance(e, (zsym._Infeasible, zsym.TimeBudget, zsym.Unsupported, zsym.PathBudget))


def _dead():
    c = zsym.CTX
    return c is not None and getattr(c, "dead", False)


class Sched:
    """Deterministic scheduler.  `choose(n, what)` returns an index < n."""

    def __init__(self, choose, max_preemptions=2, max_steps=2000, preempt_window=None):
        self.choose = choose
        self.preempt_left = max_preemptions
        self.preempt_window = preempt_window   # (lo, hi): preemptions only at scheduling steps lo <= step < hi (sharding of the schedule space)
        self.delay_bounded = False             # True: also the choice at a blocking point deviates from a default (round-robin) order only at the cost of one unit
        self.max_steps = max_steps
        self.threads: list[VThread] = []
        self.current: VThread | None = None
        self.root = None
        self.aborting = False
        self.steps = 0
        self.switches = 0
        self.trace: list = []          # (thread name, event) - for counterexample descriptions
        self.completion: list = []     # futures in completion order
        self.observers: list = []      # callables run at every scheduling point (state oracles)

    # -- thread side ---------------------------------------------------------------------------
    def spawn(self, fn, name):
        t = VThread(self, fn, name)
        self.threads.append(t)
        return t

    def block(self, state):
        """Called by the running thread at a synchronisation point: park with `state` and hand control
        to the scheduler; returns when the scheduler resumes this thread (its state is enabled)."""
        if self.aborting or _dead():
            return
        t = self.current
        t.state = state
        self.root.switch()
        t.state = "runnable"

    def yield_point(self, label="yield"):
        self.block("runnable")

    def log(self, ev):
        if len(self.trace) < 400:
            self.trace.append((self.current.name if self.current else "?", ev))

    # -- scheduler loop ------------------------------------------------------------------------
    def run(self, fn, name="main"):
        self.root = greenlet.getcurrent()
        main = self.spawn(fn, name)
        try:
            while True:
                for ob in self.observers:
                    ob()
                enabled = [t for t in self.threads if t.enabled()]
                if not enabled:
                    if all(t.state == "done" for t in self.threads):
                        break
                    raise Deadlock("; ".join(t.describe() for t in self.threads if t.state != "done"))
                cur = self.current
                if cur is not None and cur in enabled:
                    w = self.preempt_window
                    may = self.preempt_left > 0 and (w is None or w[0] <= self.steps < w[1])
                    cand = [cur] + [t for t in enabled if t is not cur] if may else [cur]
                elif self.delay_bounded:
                    # default: the next enabled thread after the current one in creation order; any other pick costs one unit
                    w = self.preempt_window
                    may = self.preempt_left > 0 and (w is None or w[0] <= self.steps < w[1])
                    k = self.threads.index(cur) if cur is not None else -1
                    order = sorted(enabled, key=lambda t: (t.tid - k - 1) % len(self.threads))
                    cand = order if may else order[:1]
                else:
                    cand = enabled
                i = self.choose(len(cand), "thread") if len(cand) > 1 else 0
                nxt = cand[i]
                if cur is not None and cur in enabled and nxt is not cur:
                    self.preempt_left -= 1
                elif self.delay_bounded and i > 0:
                    self.preempt_left -= 1
                if nxt is not cur:
                    self.switches += 1
                self.current = nxt
                self.steps += 1
                if self.steps > self.max_steps:
                    raise Deadlock(f"no termination within {self.max_steps} scheduling steps (livelock)")
                nxt.g.switch()
        finally:
            self._kill_all()
        if main.exc is not None:
            raise main.exc
        return main.result

    def _kill_all(self):
        self.aborting = True
        c = zsym.CTX
        victims = [t for t in self.threads if not t.g.dead and t.g]
        prev = None
        if c is not None and victims:
            # finally-blocks of the killed threads must not take symbolic decisions
            prev, c.dead = c.dead, True
        try:
            self._kill(victims)
        finally:
            if prev is not None:
                c.dead = prev

    def _kill(self, victims):
        for t in self.threads:
            if not t.g.dead and t.g:  # started and suspended
                try:
                    t.g.throw(greenlet.GreenletExit)
                except BaseException:  # noqa: BLE001
                    pass
            t.state = "done"


SCHED: Sched | None = None


def sched() -> Sched:
    assert SCHED is not None, "virtual-thread primitive used outside vthreads.run"
    return SCHED


def run(fn, choose, max_preemptions=2, observers=(), preempt_window=None, delay_bounded=False):
    """Run `fn` as the main virtual thread under a fresh scheduler; returns (result, sched).
    Exceptions of `fn` propagate; a stuck system raises Deadlock."""
    global SCHED
    Lock._n = Condition._n = ThreadPoolExecutor._n = 0   # labels are per run (stable signatures)
    s = Sched(choose, max_preemptions, preempt_window=preempt_window)
    s.observers = list(observers)
    s.delay_bounded = delay_bounded
    prev = SCHED
    SCHED = s
    try:
        return s.run(fn), s
    finally:
        SCHED = prev


# ---------------------------------------------------------------------------------------------
# threading stand-ins


class Lock:
    reentrant = False
    _n = 0

    def __init__(self, label=None):
        Lock._n += 1
        self.owner = None
        self.count = 0
        self.label = label or f"lock#{Lock._n}"

    def acquire(self, blocking=True, timeout=-1):
        s = sched()
        if s.aborting or _dead():
            return True
        me = s.current
        if not blocking:
            if self.owner is None or (self.reentrant and self.owner is me):
                self.owner = me
                self.count += 1
                return True
            return False
        s.block(("lock", self))
        if s.aborting or _dead():
            return True
        if self.owner is not None and not (self.reentrant and self.owner is me):
            raise SchedulerError(f"scheduler resumed a thread on an owned {self.label}")
        self.owner = me
        self.count += 1
        s.log(f"acquire {self.label}")
        return True

    def release(self):
        s = sched()
        if s.aborting or _dead():
            self.owner = None
            self.count = 0
            return
        if self.owner is None:
            raise RuntimeError("release unlocked lock")
        if self.reentrant and self.owner is not s.current:
            raise RuntimeError("cannot release un-acquired lock")
        self.count -= 1
        if self.count <= 0:
            self.owner = None
            self.count = 0
        s.log(f"release {self.label}")

    def locked(self):
        return self.owner is not None

    def __enter__(self):
        self.acquire()
        return True

    def __exit__(self, *a):
        self.release()
        return False


class RLock(Lock):
    reentrant = True


class Condition:
    _n = 0

    def __init__(self, lock=None):
        Condition._n += 1
        self.label = f"condition#{Condition._n}"
        self.lock = lock if lock is not None else RLock(self.label + ".lock")
        self.sleepers: list[VThread] = []
        self.acquire = self.lock.acquire
        self.release = self.lock.release

    def __enter__(self):
        return self.lock.__enter__()

    def __exit__(self, *a):
        return self.lock.__exit__(*a)

    def wait(self, timeout=None):
        s = sched()
        if s.aborting or _dead():
            return True
        me = s.current
        if self.lock.owner is not me:
            raise RuntimeError("cannot wait on un-acquired lock")
        saved = self.lock.count
        self.lock.owner = None
        self.lock.count = 0
        self.sleepers.append(me)
        s.log(f"sleep {self.label}")
        s.block(("sleep", self))          # resumed only after a notify moved us to ("lock", ...)
        if s.aborting or _dead():
            return True
        if self.lock.owner is not None:
            raise SchedulerError("woken sleeper resumed on an owned condition lock")
        self.lock.owner = me
        self.lock.count = saved
        s.log(f"woke {self.label}")
        return True

    def wait_for(self, predicate, timeout=None):
        result = predicate()
        while not result:
            if sched().aborting or _dead():
                return result
            self.wait()
            result = predicate()
        return result

    def notify(self, n=1):
        s = sched()
        if s.aborting or _dead():
            return
        if self.lock.owner is not s.current:
            raise RuntimeError("cannot notify on un-acquired lock")
        for _ in range(n):
            if not self.sleepers:
                break
            i = s.choose(len(self.sleepers), "notify") if len(self.sleepers) > 1 else 0
            t = self.sleepers.pop(i)
            t.state = ("lock", self.lock)
        s.log(f"notify {self.label}")

    def notify_all(self):
        s = sched()
        if s.aborting or _dead():
            return
        if self.lock.owner is not s.current:
            raise RuntimeError("cannot notify on un-acquired lock")
        for t in self.sleepers:
            t.state = ("lock", self.lock)
        del self.sleepers[:]
        s.log(f"notify_all {self.label}")


class local:  # noqa: N801  (mirrors threading.local)
    def __init__(self):
        object.__setattr__(self, "_store", {})

    def _ns(self):
        return object.__getattribute__(self, "_store").setdefault(sched().current.tid, {})

    def __getattr__(self, k):
        try:
            return self._ns()[k]
        except KeyError:
            raise AttributeError(k) from None

    def __setattr__(self, k, v):
        self._ns()[k] = v

    def __delattr__(self, k):
        try:
            del self._ns()[k]
        except KeyError:
            raise AttributeError(k) from None


def get_ident():
    return sched().current.tid


def current_thread():
    t = sched().current
    return types.SimpleNamespace(name=t.name, ident=t.tid)


threading = types.SimpleNamespace(Lock=Lock, RLock=RLock, Condition=Condition, local=local, get_ident=get_ident,
                                  current_thread=current_thread)


# ---------------------------------------------------------------------------------------------
# concurrent.futures stand-ins


class CancelledError(Exception):
    pass


class Future:
    def __init__(self, label):
        self.label = label
        self._state = "pending"  # pending | running | done | cancelled
        self._result = None
        self._exc = None

    def done(self):
        return self._state in ("done", "cancelled")

    def cancelled(self):
        return self._state == "cancelled"

    def running(self):
        return self._state == "running"

    def cancel(self):
        if self._state == "pending":
            self._state = "cancelled"
            sched().completion.append(self)
            return True
        return self._state == "cancelled"

    def _finish(self, result=None, exc=None):
        self._result, self._exc = result, exc
        self._state = "done"
        sched().completion.append(self)

    def result(self, timeout=None):
        s = sched()
        if not self.done():
            if s.aborting or _dead():
                raise CancelledError()
            s.block(("wait", self.done, f"future {self.label}"))
        if s.aborting or _dead():
            raise CancelledError()
        if self._state == "cancelled":
            raise CancelledError()
        if self._exc is not None:
            raise self._exc
        return self._result

    def exception(self, timeout=None):
        s = sched()
        if not self.done():
            s.block(("wait", self.done, f"future {self.label}"))
        if self._state == "cancelled":
            raise CancelledError()
        return self._exc


class ThreadPoolExecutor:
    _n = 0

    def __init__(self, max_workers=None, thread_name_prefix="", initializer=None, initargs=()):
        ThreadPoolExecutor._n += 1
        self.label = f"pool#{ThreadPoolExecutor._n}"
        self.max_workers = max_workers if max_workers is not None else 4
        if self.max_workers <= 0:
            raise ValueError("max_workers must be greater than 0")
        self.queue: list = []
        self.workers: list[VThread] = []
        self.idle = 0
        self._shutdown = False
        self.nsubmitted = 0

    def submit(self, fn, /, *args, **kwargs):
        s = sched()
        if self._shutdown:
            raise RuntimeError("cannot schedule new futures after shutdown")
        self.nsubmitted += 1
        f = Future(f"{self.label}.{self.nsubmitted}")
        self.queue.append((f, fn, args, kwargs))
        if self.idle > 0:
            self.idle -= 1   # an idle worker will take it (CPython: idle semaphore)
        elif len(self.workers) < self.max_workers:
            w = s.spawn(self._worker, f"{self.label}.w{len(self.workers)}")
            self.workers.append(w)
        s.log(f"submit {f.label}")
        s.yield_point("submit")
        return f

    def _worker(self):
        s = sched()
        while True:
            if not self.queue:
                if self._shutdown:
                    return
                self.idle += 1
                s.block(("wait", lambda: bool(self.queue) or self._shutdown, f"work in {self.label}"))
                if s.aborting or _dead():
                    return
                if not self.queue:
                    self.idle = max(0, self.idle - 1)
                    if self._shutdown:
                        return
                    continue
            f, fn, args, kwargs = self.queue.pop(0)
            if f._state != "pending":
                continue
            f._state = "running"
            s.log(f"start {f.label}")
            try:
                r = fn(*args, **kwargs)
            except greenlet.GreenletExit:
                raise
            except BaseException as e:  # noqa: BLE001
                if _engine_exc(e):
                    raise
                f._finish(exc=e)
                s.log(f"failed {f.label}: {type(e).__name__}")
            else:
                f._finish(result=r)
                s.log(f"finished {f.label}")

    def shutdown(self, wait=True, *, cancel_futures=False):
        s = sched()
        self._shutdown = True
        if cancel_futures:
            for f, *_ in self.queue:
                f.cancel()
            del self.queue[:]
        s.log(f"shutdown {self.label} wait={wait} cancel={cancel_futures}")
        if wait and not (s.aborting or _dead()):
            if any(w.state != "done" for w in self.workers):
                s.block(("wait", lambda: all(w.state == "done" for w in self.workers), f"workers of {self.label}"))

    def __enter__(self):
        return self

    def __exit__(self, *a):
        self.shutdown(wait=True)
        return False

    def all_workers_stopped(self):
        return all(w.state == "done" for w in self.workers)


def as_completed(fs, timeout=None):
    fs = list(fs)
    s = sched()
    yielded: list = []
    while len(yielded) < len(fs):
        pending_done = [f for f in s.completion if f in fs and f not in yielded]
        if not pending_done:
            if s.aborting or _dead():
                return
            s.block(("wait", lambda: any(f.done() and f not in yielded for f in fs), "any future"))
            if s.aborting or _dead():
                return
            continue
        f = pending_done[0]
        yielded.append(f)
        yield f


def wait(fs, timeout=None, return_when="ALL_COMPLETED"):
    fs = list(fs)
    s = sched()
    if not all(f.done() for f in fs):
        s.block(("wait", lambda: all(f.done() for f in fs), "all futures"))
    return set(fs), set()


futures = types.SimpleNamespace(ThreadPoolExecutor=ThreadPoolExecutor, as_completed=as_completed, Future=Future,
                                CancelledError=CancelledError, wait=wait)
concurrent = types.SimpleNamespace(futures=futures)
