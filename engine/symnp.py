"""`symnp` — stand-in for the handful of numpy operations onnx_ir's tensor code uses, over cells that
are z3 bit-vectors.  Lengths, shapes and dtypes are concrete; contents are symbolic.  File-backed
buffers are z3 arrays (Int -> BV8) with symbolic offsets/positions.

Anything not modelled raises `Unsupported` (-> the check is inconclusive, never "holds").
The shim is validated against real numpy at the start of every run (`selftest`).
"""
from __future__ import annotations

import math

import numpy as real_np
import z3

from engine import zsym
from engine.zsym import SInt, Unsupported, zint


def _bits(dt) -> int:
    return real_np.dtype(dt).itemsize * 8


def _is_bv(x):
    return isinstance(x, z3.BitVecRef)


class SymBytes:
    """An immutable byte string whose bytes are BV8 terms (concrete length)."""

    def __init__(self, cells):
        self.cells = list(cells)

    def __len__(self):
        return len(self.cells)

    def __bool__(self):
        return bool(self.cells)

    def __getitem__(self, k):
        if isinstance(k, slice):
            return SymBytes(self.cells[k])
        return self.cells[k]

    def __add__(self, o):
        return SymBytes(self.cells + list(o.cells if isinstance(o, SymBytes) else [z3.BitVecVal(b, 8) for b in o]))

    def __eq__(self, o):
        raise Unsupported("comparison of symbolic bytes inside the code under test")

    __hash__ = None

    def __buffer_cells__(self):
        return self.cells


def _as_cells_from_scalar(v, bits):
    if _is_bv(v):
        if v.size() == bits:
            return v
        if v.size() > bits:
            return z3.Extract(bits - 1, 0, v)
        return z3.ZeroExt(bits - v.size(), v)
    if isinstance(v, (int, real_np.integer, bool, real_np.bool_)):
        return z3.BitVecVal(int(v) & ((1 << bits) - 1), bits)
    raise Unsupported(f"scalar of type {type(v).__name__} in a symbolic array")


class SymArr:
    """ndarray stand-in.  `cells[i]` is a BitVec of width 8*itemsize (little-endian value)."""

    def __init__(self, cells, dtype, shape=None, base=None, idx=None, fortran=False):
        # fortran=True: the (>=2-D) array's memory layout is column-major, i.e. NOT C-contiguous;
        # all logical operations are unaffected, only order="K"/"A" traversals see the difference.
        self._fortran = bool(fortran)
        self.dtype = real_np.dtype(dtype)
        self._cells = list(cells) if cells is not None else None
        self._base = base
        self._idx = idx
        n = len(self._idx) if base is not None else len(self._cells)
        self._shape = tuple(shape) if shape is not None else (n,)
        if math.prod(self._shape) != n:
            raise ValueError(f"cannot reshape array of size {n} into shape {self._shape}")

    # ---- storage -------------------------------------------------------------------------------
    def _get(self):
        if self._base is not None:
            return [self._base._cells[i] for i in self._idx]
        return self._cells

    def _set(self, vals):
        vals = list(vals)
        if self._base is not None:
            for i, v in zip(self._idx, vals):
                self._base._cells[i] = v
        else:
            self._cells = vals

    def _root(self):
        if self._base is not None:
            return self._base, self._idx
        return self, list(range(len(self._cells)))

    # ---- attributes ----------------------------------------------------------------------------
    @property
    def size(self):
        return len(self._idx) if self._base is not None else len(self._cells)

    @property
    def itemsize(self):
        return self.dtype.itemsize

    @property
    def nbytes(self):
        return self.size * self.dtype.itemsize

    @property
    def shape(self):
        return self._shape

    @property
    def ndim(self):
        return len(self._shape)

    def __len__(self):
        if not self._shape:
            raise TypeError("len() of unsized object")
        return self._shape[0]

    def __array__(self, dtype=None, copy=None):
        if dtype is not None and real_np.dtype(dtype) != self.dtype:
            raise Unsupported("__array__ with dtype conversion")
        return self

    # ---- shape ops -----------------------------------------------------------------------------
    def _order_idx(self, order):
        """positions (into the logical C-order cell list) in traversal order `order`."""
        n = self.size
        if order in ("C", None):
            return list(range(n))
        if order == "F" or (order in ("K", "A") and self._fortran and len(self._shape) >= 2):
            import itertools

            strides = []
            acc = 1
            for d in reversed(self._shape):
                strides.insert(0, acc)
                acc *= d
            out = []
            for rev in itertools.product(*[range(d) for d in reversed(self._shape)]):
                ix = tuple(reversed(rev))
                out.append(sum(i * st for i, st in zip(ix, strides)))
            return out
        if order in ("K", "A"):
            return list(range(n))
        raise Unsupported(f"order={order!r}")

    def ravel(self, order="C"):
        root, idx = self._root()
        perm = self._order_idx(order)
        if perm == list(range(len(idx))) and not self._fortran:
            return SymArr(None, self.dtype, (len(idx),), base=root, idx=list(idx))
        if perm == list(range(len(idx))) and self._fortran and len(self._shape) < 2:
            return SymArr(None, self.dtype, (len(idx),), base=root, idx=list(idx))
        cells = self._get()
        return SymArr([cells[i] for i in perm], self.dtype)  # a copy, as numpy makes for non-contiguous input

    def flatten(self, order="C"):
        cells = self._get()
        return SymArr([cells[i] for i in self._order_idx(order)], self.dtype)

    def copy(self, order="K"):
        return SymArr(list(self._get()), self.dtype, self._shape, fortran=self._fortran and order in ("K", "A", "F"))

    @property
    def flags(self):
        class F:
            c_contiguous = not (self._fortran and len(self._shape) >= 2 and self.size > 1)
            f_contiguous = self._fortran or len(self._shape) < 2
            contiguous = c_contiguous
        return F()

    def reshape(self, *shape):
        if len(shape) == 1 and not isinstance(shape[0], (int, real_np.integer)):
            shape = tuple(shape[0])
        shape = tuple(int(s) for s in shape)
        if -1 in shape:
            known = -math.prod(shape)
            shape = tuple(self.size // known if s == -1 else s for s in shape)
        root, idx = self._root()
        return SymArr(None, self.dtype, shape, base=root, idx=list(idx))

    def resize(self, new_shape, refcheck=True):
        if isinstance(new_shape, (int, real_np.integer)):
            new_shape = (int(new_shape),)
        new_shape = tuple(int(s) for s in new_shape)
        n = math.prod(new_shape)
        if n == self.size:
            self._shape = new_shape
            return
        if self._base is not None:
            raise ValueError("cannot resize this array: it does not own its data")
        cur = self._cells
        z = z3.BitVecVal(0, _bits(self.dtype))
        self._cells = cur[:n] + [z] * max(0, n - len(cur))
        self._shape = new_shape

    def view(self, dt=None):
        dt = real_np.dtype(dt) if dt is not None else self.dtype
        if dt.itemsize == self.dtype.itemsize:
            root, idx = self._root()
            return SymArr(None, dt, self._shape, base=root, idx=list(idx), fortran=self._fortran)
        # different item size: regroup the little-endian bytes (read-only copy)
        by = []
        w = self.dtype.itemsize
        for c in self._get():
            for k in range(w):
                by.append(z3.Extract(8 * k + 7, 8 * k, c))
        nw = dt.itemsize
        if len(by) % nw:
            raise ValueError("When changing to a larger dtype, its size must be a divisor of the total size in bytes")
        cells = [z3.simplify(z3.Concat(*reversed(by[i:i + nw]))) if nw > 1 else by[i] for i in range(0, len(by), nw)]
        shape = None
        if self._shape:
            last = self._shape[-1] * w
            if last % nw == 0:
                shape = self._shape[:-1] + (last // nw,)
        return SymArr(cells, dt, shape)

    def astype(self, dt, copy=True):
        dt = real_np.dtype(dt)
        if dt.kind not in "iub" or self.dtype.kind not in "iub":
            if dt.itemsize == self.dtype.itemsize and dt.kind == self.dtype.kind:
                return SymArr(list(self._get()), dt, self._shape)  # byte-order change only
            raise Unsupported(f"astype {self.dtype} -> {dt}")
        nb, ob = _bits(dt), _bits(self.dtype)
        out = []
        for c in self._get():
            if nb == ob:
                out.append(c)
            elif nb < ob:
                out.append(z3.simplify(z3.Extract(nb - 1, 0, c)))
            elif self.dtype.kind == "i":
                out.append(z3.simplify(z3.SignExt(nb - ob, c)))
            else:
                out.append(z3.simplify(z3.ZeroExt(nb - ob, c)))
        return SymArr(out, dt, self._shape)

    def newbyteorder(self, *_):
        return self

    # ---- element-wise bit ops --------------------------------------------------------------------
    def _operand(self, o):
        b = _bits(self.dtype)
        if isinstance(o, SymArr):
            v = o._get()
            if len(v) != self.size:
                raise ValueError(f"operands could not be broadcast together with shapes {self.shape} {o.shape}")
            if _bits(o.dtype) != b:
                raise Unsupported("mixed-width array operands")
            return v
        return [_as_cells_from_scalar(o, b)] * self.size

    def _bin(self, o, f):
        return SymArr([z3.simplify(f(a, c)) for a, c in zip(self._get(), self._operand(o))], self.dtype, self._shape)

    def _ibin(self, o, f):
        self._set(z3.simplify(f(a, c)) for a, c in zip(self._get(), self._operand(o)))
        return self

    def _shr(self, a, c):
        return (a >> c) if self.dtype.kind == "i" else z3.LShR(a, c)

    def __and__(self, o):
        return self._bin(o, lambda a, c: a & c)

    __rand__ = __and__

    def __or__(self, o):
        return self._bin(o, lambda a, c: a | c)

    __ror__ = __or__

    def __xor__(self, o):
        return self._bin(o, lambda a, c: a ^ c)

    def __lshift__(self, o):
        return self._bin(o, lambda a, c: a << c)

    def __rshift__(self, o):
        return self._bin(o, self._shr)

    def __iand__(self, o):
        return self._ibin(o, lambda a, c: a & c)

    def __ior__(self, o):
        return self._ibin(o, lambda a, c: a | c)

    def __ilshift__(self, o):
        return self._ibin(o, lambda a, c: a << c)

    def __irshift__(self, o):
        return self._ibin(o, self._shr)

    # ---- indexing --------------------------------------------------------------------------------
    def __getitem__(self, k):
        if isinstance(k, slice) and len(self._shape) == 1:
            root, idx = self._root()
            sub = idx[k]
            return SymArr(None, self.dtype, (len(sub),), base=root, idx=sub)
        if isinstance(k, (int, real_np.integer)) and len(self._shape) == 1:
            return self._get()[k]
        raise Unsupported(f"index {k!r} on shape {self._shape}")

    def __setitem__(self, k, v):
        if isinstance(k, slice) and len(self._shape) == 1:
            tgt = self[k]
            tgt._set(tgt._operand(v))
            return
        raise Unsupported(f"setitem {k!r}")

    # ---- output ----------------------------------------------------------------------------------
    def tobytes(self, order="C"):
        out = []
        w = self.dtype.itemsize
        for c in self._get():
            for k in range(w):
                out.append(z3.simplify(z3.Extract(8 * k + 7, 8 * k, c)) if w > 1 else c)
        return SymBytes(out)

    def tofile(self, file):
        # numpy's ndarray.tofile writes the array's bytes at the file's current position
        file.write(self.tobytes())

    def tolist(self):
        return list(self._get())

    def __repr__(self):
        return f"SymArr({self.dtype}, shape={self._shape})"


class SymFileBuffer:
    """mmap stand-in: a whole file as z3 Array(Int -> BV8) of symbolic length `flen`.
    Records every index range read so that over-long reads are caught."""

    def __init__(self, arr, flen, shift=None):
        self.arr = arr
        self.flen = flen  # z3 Int term: length of this mapping
        self.shift = shift if shift is not None else z3.IntVal(0)  # index 0 of the mapping = byte `shift` of the file
        self.reads = []   # (start term, length int)

    def cells(self, start, n):
        start = zint(start)
        self.reads.append((start, n))
        return [z3.Select(self.arr, z3.simplify(start + self.shift + i)) for i in range(n)]

    def window(self, offset, length):
        off = zint(offset)
        flen = self.flen - off if (isinstance(length, int) and length == 0) else zint(length)
        return SymFileBuffer(self.arr, flen, self.shift + off)

    def __getitem__(self, k):
        if not isinstance(k, slice) or k.step is not None:
            raise Unsupported("mmap index")
        start = zint(k.start if k.start is not None else 0)
        stop = zint(k.stop) if k.stop is not None else self.flen
        n = z3.simplify(stop - start)
        if not z3.is_int_value(n):
            raise Unsupported("mmap slice of symbolic length")
        n = n.as_long()
        # Python slicing truncates at the end of the buffer
        if not zsym.ctx().branch(stop <= self.flen):
            raise ShortRead("slice extends past the end of the mapped file")
        return SymBytes(self.cells(start, n))

    def close(self):
        pass


class ShortRead(Exception):
    """The code read past the end of the (symbolic-length) file."""


class ShimNP:
    """Module-like object bound to the name `np` in the shadow modules."""

    ndarray = SymArr
    generic = real_np.generic
    uint8, int8, uint16, int16, uint32, int32, uint64, int64 = (
        real_np.uint8, real_np.int8, real_np.uint16, real_np.int16, real_np.uint32, real_np.int32, real_np.uint64, real_np.int64)
    float16, float32, float64, complex64, complex128, bool_ = (
        real_np.float16, real_np.float32, real_np.float64, real_np.complex64, real_np.complex128, real_np.bool_)
    bytes_ = real_np.bytes_
    integer = real_np.integer
    floating = real_np.floating
    dtype = staticmethod(real_np.dtype)

    @staticmethod
    def prod(dims):
        return math.prod(int(d) for d in dims)

    @staticmethod
    def empty(shape, dtype=real_np.float64):
        shape = (int(shape),) if isinstance(shape, (int, real_np.integer)) else tuple(int(s) for s in shape)
        b = _bits(dtype)
        # uninitialised memory: arbitrary content
        ShimNP._fresh += 1
        cells = [z3.BitVec(f"uninit{ShimNP._fresh}_{i}", b) for i in range(math.prod(shape))]
        return SymArr(cells, dtype, shape)

    _fresh = 0

    @staticmethod
    def zeros(shape, dtype=real_np.float64):
        shape = (int(shape),) if isinstance(shape, (int, real_np.integer)) else tuple(int(s) for s in shape)
        return SymArr([z3.BitVecVal(0, _bits(dtype))] * math.prod(shape), dtype, shape)

    @staticmethod
    def frombuffer(buf, dtype=real_np.float64, count=-1, offset=0):
        dt = real_np.dtype(dtype)
        w = dt.itemsize
        if isinstance(buf, SymFileBuffer):
            if isinstance(count, (SInt,)) or count < 0:
                raise Unsupported("frombuffer on a file buffer needs a concrete count")
            n = int(count) * w
            c = zsym.ctx()
            off = zint(offset)
            if not c.branch(z3.And(off >= 0, off + n <= buf.flen)):
                raise ValueError("buffer is smaller than requested size")
            by = buf.cells(off, n)
        else:
            if isinstance(buf, SymBytes):
                by = buf.cells
            elif isinstance(buf, (bytes, bytearray, memoryview)):
                by = [z3.BitVecVal(x, 8) for x in bytes(buf)]
            else:
                raise Unsupported(f"frombuffer({type(buf).__name__})")
            offset = int(offset)
            by = by[offset:]
            if count is not None and count >= 0:
                if count * w > len(by):
                    raise ValueError("buffer is smaller than requested size")
                by = by[: count * w]
            elif len(by) % w:
                raise ValueError("buffer size must be a multiple of element size")
        cells = [z3.Concat(*reversed(by[i:i + w])) if w > 1 else by[i] for i in range(0, len(by), w)]
        return SymArr(cells, dt)

    @staticmethod
    def array(obj, dtype=None, copy=True):
        if isinstance(obj, SymArr):
            return obj.astype(dtype) if dtype is not None and real_np.dtype(dtype) != obj.dtype else obj.copy()
        if isinstance(obj, TypedField):
            dt = real_np.dtype(dtype)
            if dt.itemsize * 8 != obj.bits:
                raise Unsupported(f"np.array(proto field of {obj.bits} bits, dtype={dt})")
            return SymArr(list(obj.cells), dt)
        raise Unsupported(f"np.array({type(obj).__name__})")

    @staticmethod
    def asarray(obj, dtype=None):
        if isinstance(obj, SymArr):
            return obj if dtype is None or real_np.dtype(dtype) == obj.dtype else obj.astype(dtype)
        raise Unsupported(f"np.asarray({type(obj).__name__})")

    @staticmethod
    def from_dlpack(obj):
        raise Unsupported("dlpack")


class TypedField:
    """A repeated scalar proto field (int32_data, float_data, ...) whose elements are bit patterns of the
    width numpy would store them in after `np.array(field, dtype=<field's natural dtype>)`."""

    def __init__(self, cells, bits):
        self.cells = list(cells)
        self.bits = bits

    def __len__(self):
        return len(self.cells)

    def __bool__(self):
        return bool(self.cells)

    def __iter__(self):
        return iter(self.cells)


# -------------------------------------------------------------------------------------------------
# self test against real numpy (encoding validation, run at the start of every C04 run)


def _conc(arr: "SymArr"):
    vals = []
    for c in arr._get():
        v = z3.simplify(c)
        assert z3.is_bv_value(v), v
        vals.append(v.as_long())
    return vals


def selftest():
    """Push concrete inputs through the real numpy and through the shim (constant terms)."""
    import random

    from onnx_ir import _type_casting as tc

    rnd = random.Random(1)
    shim = ShimNP()
    n_checks = 0
    for f in ("pack_4bitx2", "pack_2bitx4"):
        real_f = getattr(tc, f)
        sym_f = zsym.rebind(real_f, np=shim)
        for n in range(0, 11):
            data = [rnd.randrange(256) for _ in range(n)]
            want = real_f(real_np.array(data, dtype=real_np.uint8)).tolist()
            got = _conc(sym_f(SymArr([z3.BitVecVal(x, 8) for x in data], real_np.uint8)))
            assert want == got, (f, n, data, want, got)
            n_checks += 1
    for f, per in (("unpack_4bitx2", 2), ("unpack_2bitx4", 4)):
        real_f = getattr(tc, f)
        sym_f = zsym.rebind(real_f, np=shim)
        for n in range(0, 11):
            nb = -(-n // per)
            data = [rnd.randrange(256) for _ in range(nb)]
            want = real_f(real_np.array(data, dtype=real_np.uint8), [n]).tolist()
            got = _conc(sym_f(SymArr([z3.BitVecVal(x, 8) for x in data], real_np.uint8), [n]))
            assert want == got, (f, n, data, want, got)
            n_checks += 1
    # view / astype / tobytes
    for dt_from, dt_to in ((real_np.int32, real_np.uint16), (real_np.int32, real_np.uint8), (real_np.uint64, real_np.uint32), (real_np.int8, real_np.int32)):
        data = [rnd.randrange(-(2 ** 31), 2 ** 31) if real_np.dtype(dt_from).kind == "i" and real_np.dtype(dt_from).itemsize == 4 else rnd.randrange(0, 2 ** 40) if real_np.dtype(dt_from).itemsize == 8 else rnd.randrange(-128, 128) for _ in range(5)]
        a = real_np.array(data, dtype=dt_from)
        want = a.astype(dt_to).tobytes()
        b = _bits(dt_from)
        s = SymArr([z3.BitVecVal(int(x) & ((1 << b) - 1), b) for x in data], dt_from).astype(dt_to).tobytes()
        got = bytes(z3.simplify(c).as_long() for c in s.cells)
        assert want == got, (dt_from, dt_to, data)
        n_checks += 1
    a = real_np.array([1.5, -2.0, 3.25, 0.0], dtype=real_np.float32)
    bits = [int(x) for x in a.view(real_np.uint32)]
    s = SymArr([z3.BitVecVal(x, 32) for x in bits], real_np.float32).view(real_np.complex64)
    want = a.view(real_np.complex64).view(real_np.uint64).tolist()
    assert _conc(s) == want
    n_checks += 1
    s8 = SymArr([z3.BitVecVal(x, 32) for x in bits], real_np.float32).view(real_np.uint8)
    assert bytes(_conc(s8)) == a.tobytes()
    n_checks += 1
    return n_checks
