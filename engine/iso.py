"""iso(m1, m2) — structural isomorphism of two IR models through public accessors (C03).

The two models are walked in parallel; a bijection between their Value objects is built on the way and
every later occurrence must respect it (so a use that was silently re-wired to another value with the
same name is found even though every name still matches).  Returns a list of differences (empty = iso).
"""
from __future__ import annotations

import onnx_ir as ir


class Iso:
    def __init__(self, check_device=True):
        self.fwd: dict = {}   # id(value in m1) -> value in m2
        self.bwd: dict = {}
        self.diffs: list[str] = []
        self.check_device = check_device

    def diff(self, where, what):
        if len(self.diffs) < 12:
            self.diffs.append(f"{where}: {what}")

    def pair(self, a, b, where):
        """record that value a (m1) corresponds to value b (m2)"""
        if a is None or b is None:
            if a is not b:
                self.diff(where, f"omitted on one side only ({getattr(a, 'name', None)!r} vs {getattr(b, 'name', None)!r})")
            return
        fa, fb = self.fwd.get(id(a)), self.bwd.get(id(b))
        if fa is None and fb is None:
            self.fwd[id(a)] = b
            self.bwd[id(b)] = a
            self.value(a, b, where)
            return
        if fa is not b or fb is not a:
            self.diff(where, f"connectivity differs: value {a.name!r} corresponds to {getattr(fa, 'name', None)!r} elsewhere but to {b.name!r} here")

    def value(self, a, b, where):
        w = f"{where} value {a.name!r}"
        if a.name != b.name:
            self.diff(w, f"name {a.name!r} vs {b.name!r}")
        if not a.name:
            return   # an omitted (empty-named) optional output has no value-info entry to carry type, shape or metadata
        at, ash = a.type, a.shape
        if a.const_value is not None and a.is_initializer():
            # an initializer value that carries no type/shape of its own acquires its tensor's on deserialization
            if at is None and b.type is not None and getattr(b.type, "dtype", None) == a.const_value.dtype:
                at = b.type
            if ash is None and b.shape is not None and _shape(b.shape) == _shape(a.const_value.shape):
                ash = b.shape
        if repr(at) != repr(b.type):
            self.diff(w, f"type {at!r} vs {b.type!r}")
        if _shape(ash) != _shape(b.shape):
            self.diff(w, f"shape {ash!r} vs {b.shape!r}")
        if (a.doc_string or "") != (b.doc_string or ""):
            self.diff(w, f"doc_string {a.doc_string!r} vs {b.doc_string!r}")
        if dict(a.metadata_props) != dict(b.metadata_props):
            self.diff(w, f"metadata {dict(a.metadata_props)} vs {dict(b.metadata_props)}")

    def tensor(self, a, b, where, check_name=True):
        if a is None or b is None:
            if a is not b:
                self.diff(where, "tensor present on one side only")
            return
        if check_name and a.name != b.name:
            self.diff(where, f"tensor name {a.name!r} vs {b.name!r}")
        if isinstance(a, ir.ExternalTensor) or isinstance(b, ir.ExternalTensor):
            # external data is a reference: compare the reference, not the (possibly absent) file
            ka = (str(a.location), a.offset, a.length) if isinstance(a, ir.ExternalTensor) else None
            kb = (str(b.location), b.offset, b.length) if isinstance(b, ir.ExternalTensor) else None
            if ka != kb or a.dtype != b.dtype or _shape(a.shape) != _shape(b.shape):
                self.diff(where, f"external tensor reference {ka} {a.dtype} vs {kb} {b.dtype}")
            return
        if a.dtype != b.dtype:
            self.diff(where, f"tensor dtype {a.dtype} vs {b.dtype}")
        if _shape(a.shape) != _shape(b.shape):
            self.diff(where, f"tensor shape {a.shape} vs {b.shape}")
        try:
            if isinstance(a, ir.StringTensor) or a.dtype == ir.DataType.STRING:
                same = list(a.string_data()) == list(b.string_data()) if hasattr(a, "string_data") else list(a.numpy().ravel()) == list(b.numpy().ravel())
            else:
                same = bytes(a.tobytes()) == bytes(b.tobytes())
        except Exception as e:  # noqa: BLE001
            self.diff(where, f"tensor bytes unreadable: {type(e).__name__}")
            return
        if not same:
            self.diff(where, "tensor bytes differ")
        if (getattr(a, "doc_string", None) or "") != (getattr(b, "doc_string", None) or ""):
            self.diff(where, "tensor doc_string differs")
        if dict(getattr(a, "metadata_props", {}) or {}) != dict(getattr(b, "metadata_props", {}) or {}):
            self.diff(where, f"tensor metadata {dict(a.metadata_props)} vs {dict(b.metadata_props)}")

    def attr(self, a, b, where):
        w = f"{where} attribute {a.name!r}"
        if a.name != b.name or a.type != b.type:
            self.diff(w, f"{a.name}:{a.type} vs {b.name}:{b.type}")
            return
        if (a.ref_attr_name or None) != (b.ref_attr_name or None):
            self.diff(w, f"reference {a.ref_attr_name!r} vs {b.ref_attr_name!r}")
            return
        if (a.doc_string or "") != (b.doc_string or ""):
            self.diff(w, "doc_string differs")
        if a.is_ref():
            return
        AT = ir.AttributeType
        if a.type == AT.GRAPH:
            self.graph(a.value, b.value, w)
        elif a.type == AT.GRAPHS:
            if len(a.value) != len(b.value):
                self.diff(w, "number of graphs")
            for x, y in zip(a.value, b.value):
                self.graph(x, y, w)
        elif a.type == AT.TENSOR:
            self.tensor(a.value, b.value, w)
        elif a.type == AT.TENSORS:
            if len(a.value) != len(b.value):
                self.diff(w, "number of tensors")
            for x, y in zip(a.value, b.value):
                self.tensor(x, y, w)
        elif a.type in (AT.FLOAT,):
            if _f32(a.value) != _f32(b.value):
                self.diff(w, f"{a.value!r} vs {b.value!r}")
        elif a.type in (AT.FLOATS,):
            if [_f32(x) for x in a.value] != [_f32(x) for x in b.value]:
                self.diff(w, f"{a.value!r} vs {b.value!r}")
        elif a.type in (AT.INTS, AT.STRINGS):
            if [_s(x) for x in a.value] != [_s(x) for x in b.value]:
                self.diff(w, f"{a.value!r} vs {b.value!r}")
        elif a.type in (AT.TYPE_PROTO, AT.TYPE_PROTOS, AT.SPARSE_TENSOR, AT.SPARSE_TENSORS):
            if repr(a.value) != repr(b.value):
                self.diff(w, f"{a.value!r} vs {b.value!r}")
        else:
            if _s(a.value) != _s(b.value):
                self.diff(w, f"{a.value!r} vs {b.value!r}")

    def node(self, a, b, where):
        w = f"{where} node {a.name!r}"
        if (a.domain, a.op_type, a.overload, a.name) != (b.domain, b.op_type, b.overload, b.name):
            self.diff(w, f"identifier/name {(a.domain, a.op_type, a.overload, a.name)} vs {(b.domain, b.op_type, b.overload, b.name)}")
        if (a.doc_string or "") != (b.doc_string or ""):
            self.diff(w, "doc_string differs")
        if dict(a.metadata_props) != dict(b.metadata_props):
            self.diff(w, f"metadata {dict(a.metadata_props)} vs {dict(b.metadata_props)}")
        ia, ib = list(a.inputs), list(b.inputs)
        while ia and ia[-1] is None:
            ia.pop()
        while ib and ib[-1] is None:
            ib.pop()
        if len(ia) != len(ib):
            self.diff(w, f"{len(ia)} inputs vs {len(ib)}")
        for i, (x, y) in enumerate(zip(ia, ib)):
            self.pair(x, y, f"{w} input {i}")
        oa, ob = list(a.outputs), list(b.outputs)
        while oa and not oa[-1].name and not oa[-1].uses():
            oa.pop()
        while ob and not ob[-1].name and not ob[-1].uses():
            ob.pop()
        if len(oa) != len(ob):
            self.diff(w, f"{len(oa)} outputs vs {len(ob)}")
        for i, (x, y) in enumerate(zip(oa, ob)):
            self.pair(x, y, f"{w} output {i}")
        ka, kb = list(a.attributes.keys()), list(b.attributes.keys())
        if sorted(ka) != sorted(kb):
            self.diff(w, f"attributes {ka} vs {kb}")
        for k in ka:
            if k in b.attributes:
                self.attr(a.attributes[k], b.attributes[k], w)
        if self.check_device:
            da, db = _devices(a), _devices(b)
            if da != db:
                self.diff(w, f"device configurations {da} vs {db}")

    def graph(self, a, b, where, named=True):
        w = f"{where} graph {a.name!r}"
        if named and (a.name or "") != (b.name or ""):
            self.diff(w, f"name {a.name!r} vs {b.name!r}")
        if (a.doc_string or "") != (b.doc_string or ""):
            self.diff(w, "doc_string differs")
        if dict(a.metadata_props) != dict(b.metadata_props):
            self.diff(w, f"metadata {dict(a.metadata_props)} vs {dict(b.metadata_props)}")
        if len(a.inputs) != len(b.inputs):
            self.diff(w, f"{len(a.inputs)} inputs vs {len(b.inputs)}")
        for i, (x, y) in enumerate(zip(a.inputs, b.inputs)):
            self.pair(x, y, f"{w} input {i}")
        if list(a.initializers.keys()) != list(b.initializers.keys()):
            if sorted(map(str, a.initializers.keys())) != sorted(map(str, b.initializers.keys())):
                self.diff(w, f"initializers {list(a.initializers)} vs {list(b.initializers)}")
        for k, x in a.initializers.items():
            y = b.initializers.get(k)
            if y is not None:
                self.pair(x, y, f"{w} initializer {k!r}")
                # an initializer tensor's own name is aligned with its value by serialization: not compared
                self.tensor(x.const_value, y.const_value, f"{w} initializer {k!r}", check_name=False)
        na, nb = list(a), list(b)
        if len(na) != len(nb):
            self.diff(w, f"{len(na)} nodes vs {len(nb)}: {[n.name for n in na]} vs {[n.name for n in nb]}")
        for x, y in zip(na, nb):
            self.node(x, y, w)
        if len(a.outputs) != len(b.outputs):
            self.diff(w, f"{len(a.outputs)} outputs vs {len(b.outputs)}")
        for i, (x, y) in enumerate(zip(a.outputs, b.outputs)):
            self.pair(x, y, f"{w} output {i}")

    def model(self, a, b):
        for f in ("ir_version", "producer_name", "producer_version", "domain", "model_version", "doc_string"):
            x, y = getattr(a, f), getattr(b, f)
            if (x or None) != (y or None):
                self.diff("model", f"{f} {x!r} vs {y!r}")
        if _opsets(a.opset_imports) != _opsets(b.opset_imports):
            self.diff("model", f"opset imports {dict(a.opset_imports)} vs {dict(b.opset_imports)}")
        if dict(a.metadata_props) != dict(b.metadata_props):
            self.diff("model", f"metadata {dict(a.metadata_props)} vs {dict(b.metadata_props)}")
        self.graph(a.graph, b.graph, "main")
        if sorted(map(str, a.functions.keys())) != sorted(map(str, b.functions.keys())):
            self.diff("model", f"functions {list(a.functions)} vs {list(b.functions)}")
        for k, fa in a.functions.items():
            fb = b.functions.get(k)
            if fb is None:
                continue
            w = f"function {k}"
            if _opsets(fa.opset_imports) != _opsets(fb.opset_imports):
                self.diff(w, f"opset imports {dict(fa.opset_imports)} vs {dict(fb.opset_imports)}")
            ka, kb = list(fa.attributes.keys()), list(fb.attributes.keys())
            if sorted(ka) != sorted(kb):
                self.diff(w, f"attribute parameters {ka} vs {kb}")
            for kk in ka:
                if kk in fb.attributes:
                    x, y = fa.attributes[kk], fb.attributes[kk]
                    if (x.value is None) != (y.value is None) or (x.value is not None and x.type != y.type):
                        # (a parameter without default is stored by name only: its type cannot be represented)
                        self.diff(w, f"attribute parameter {kk}: {x!r} vs {y!r}")
                    elif x.value is not None:
                        self.attr(x, y, w)
            self.graph(fa.graph, fb.graph, w, named=False)   # a FunctionProto has no graph name
        if self.check_device and (a.ir_version or 0) >= 11:
            da = [(c.name, c.num_devices, tuple(c.device or ())) if hasattr(c, "device") else repr(c) for c in (a.device_configurations or ())]
            db = [(c.name, c.num_devices, tuple(c.device or ())) if hasattr(c, "device") else repr(c) for c in (b.device_configurations or ())]
            if da != db:
                self.diff("model", f"device configurations {da} vs {db}")
        return self.diffs


def _opsets(d):
    # exact: on IR -> proto -> IR an opset import keeps its spelling ('ai.onnx' and '' are different keys of the mapping)
    return dict(d)


def _shape(s):
    if s is None:
        return None
    out = []
    for d in s:
        if isinstance(d, ir.SymbolicDim):
            out.append(("sym", None if d.value is None else str(d.value)))
        else:
            out.append(("int", int(d)))
    den = getattr(s, "_denotations", None)
    return out, (list(den) if den is not None and any(x for x in den) else None)


def _f32(x):
    import numpy as np

    return np.float32(x).tobytes()


def _s(x):
    if isinstance(x, bytes):
        return x.decode("utf-8", "replace")
    return x


def _devices(n):
    try:
        return repr(n.device_configurations)
    except Exception:  # noqa: BLE001
        return None


def iso(m1, m2, check_device=True):
    return Iso(check_device).model(m1, m2)
