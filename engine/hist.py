"""History driver on zsym: bounded edit histories over the real IR classes.

A *case* is a Python function `body(P)` that receives its parameters as symbolic proxies
(`zsym.SInt`, bounded by declared ranges), drives the public API, and returns
`(ok, obs)`: the oracle's verdict and a JSON-able observation (what raised, which clauses failed).
Operation / operand selectors are concretised lazily by the engine at the point where the real code
(or the alphabet dispatcher) needs a concrete integer, so parameters an operation never reads stay
unconstrained and one path covers all their values; payload ints the code only compares stay
symbolic through the real API.

Soundness guard against proxy intolerance (`isinstance(x, int)` etc.): for EVERY explored path the
engine takes a model of the path condition, re-executes the body natively with plain Python ints
(no proxies, no solver) and requires the same observation.  A divergence makes the check
inconclusive.  A failing oracle is reported only if it also fails in that native re-execution.
"""
from __future__ import annotations

import time

import z3

from engine import zsym
from engine.zsym import SInt


class Case:
    def __init__(self, name, ranges, body, group=None, meta=None):
        self.name = name
        self.ranges = ranges  # dict var -> (lo, hi) inclusive
        self.body = body      # body(P: dict var -> SInt|int) -> (ok: bool, obs)
        self.group = group or name
        self.meta = meta or {}


def run_case(case: Case, max_paths=200000):
    """Explore one case.  Returns dict(paths, queries, solver_s, failures=[(args, obs)], divergences=[...])."""
    terms = {k: z3.Int(k) for k in case.ranges}
    assume = [c for k, (lo, hi) in case.ranges.items() for c in
              ([terms[k] >= lo] if lo is not None else []) + ([terms[k] <= hi] if hi is not None else [])]
    if "assume" in case.meta:
        assume += list(case.meta["assume"](terms))
    failures, divergences = [], []
    stats = dict(paths=0, queries=0, solver_s=0.0, native_replays=0)
    state = zsym.PathState(assume, 20000)
    t0 = time.time()
    while True:
        c = zsym.CTX = zsym._Ctx(state)
        ok_path = True
        try:
            out = case.body({k: SInt(t) for k, t in terms.items()})
        except zsym._Infeasible:
            ok_path = False
        finally:
            zsym.CTX = None
        if ok_path:
            stats["paths"] += 1
            if stats["paths"] > max_paths:
                raise zsym.PathBudget(f"{case.name}: more than {max_paths} paths")
            ok, obs = out
            # witness of this path, replayed natively
            r, model = c.check()
            if r != "sat":
                raise zsym.Unsupported(f"{case.name}: path condition not satisfiable/unknown at path end ({r})")
            args = {k: model.eval(t, model_completion=True).as_long() for k, t in terms.items()}
            ok2, obs2 = case.body(dict(args))
            stats["native_replays"] += 1
            if _norm(obs) != _norm(obs2) or bool(ok) != bool(ok2):
                divergences.append(dict(args=args, symbolic=_norm(obs), native=_norm(obs2)))
            elif not ok2:
                failures.append((args, obs2))
        stats["queries"] += c.queries
        stats["solver_s"] += c.solver_s
        if not state.next_path(c.pos if ok_path else None):
            break
    stats["wall"] = time.time() - t0
    return dict(stats=stats, failures=failures, divergences=divergences)


def choice(v, n):
    """An index < n taken from parameter `v`: in the symbolic run the parameter is constrained to
    [0, n) for the rest of the path and forked over its feasible values; in the native re-execution it
    is the model's plain int."""
    if isinstance(v, SInt):
        # n - 1 two-way decisions on a fresh variable; both sides are feasible by construction (no solver call)
        c = zsym.ctx()
        for val in range(n - 1):
            if c.branch(v.t == val, free=True):
                return val
        c.assume(v.t == n - 1)
        return n - 1
    if not 0 <= v < n:
        raise AssertionError(f"native re-execution: choice {v} outside [0,{n})")
    return v


def _norm(o):
    """comparison key of an observation: numbers that the real code formatted into messages appear as
    '<symint>' in the symbolic run, so digits and placeholders are abstracted before comparing"""
    import json
    import re

    return re.sub(r"<sym\w+>|-?\d+", "#", json.dumps(o, sort_keys=True, default=repr))


# ---- process sharding ---------------------------------------------------------------------------


def shard_worker(chk, tier, item):
    """item = (module name, factory name, key): the factory rebuilds the Case in the worker."""
    import importlib

    modname, factory, key = item
    case = getattr(importlib.import_module(modname), factory)(tier, key)
    res = run_case(case)
    st = res["stats"]
    chk.paths += st["paths"]
    chk.queries += st["queries"]
    chk.solver_s += st["solver_s"]
    chk.obligations += 1
    chk.case(case.name)
    if res["divergences"]:
        d = res["divergences"][0]
        chk.note_inconclusive(f"{case.name}: symbolic and native executions diverge (proxy intolerance) on {d['args']}: {d['symbolic'][:200]} vs {d['native'][:200]}")
    seen = set()
    for args, obs in res["failures"]:
        sig = case.meta["sig"](args, obs) if "sig" in case.meta else case.group
        if sig in seen:
            continue
        seen.add(sig)
        chk.violation(sig, f"{case.name}: {case.meta['describe'](args, obs) if 'describe' in case.meta else obs}",
                      dict(case=case.name, key=list(key) if isinstance(key, (list, tuple)) else key, args=args, obs=obs))
    if not res["failures"] and not res["divergences"]:
        chk.discharged += 1
        chk.sample({"case": case.name, "paths": st["paths"], "solver_queries": st["queries"], "native_replays": st["native_replays"],
                    "verdict": "oracle holds on every path"}, cap=10)
    if st["paths"] == 0:
        chk.note_inconclusive(f"{case.name}: no feasible path (vacuous)")
    else:
        if len(chk.vacuity) < 4:
            chk.vacuity_ok(f"{case.name}: oracle evaluated on {st['paths']} paths")


def run_cases(chk, modname, factory, keys):
    from engine.common import parallel

    parallel(chk, "engine.hist", "shard_worker", [(modname, factory, k) for k in keys])
