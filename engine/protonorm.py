"""norm(p) — the normal form of an ONNX ModelProto under EXACTLY the normalisations C02 documents:

  1. the alias domain 'ai.onnx' is ''                       (opset imports, node domains)
  2. opset-import / value-info / metadata entries may be reordered  (sorted here)
  3. value-info is added for initializers                   (value-info naming an initializer is dropped on both sides)
  4. unreferenced value-info is dropped                     (value-info naming no value of its graph is dropped)
  5. trailing unnamed node outputs are trimmed
  6. unset and default-valued optional scalars are equivalent (fields equal to their default are cleared)

and nothing else.  `first_difference(a, b)` walks two normalised messages and names the first field that
differs (for the counterexample description)."""
from __future__ import annotations

import onnx
from google.protobuf.descriptor import FieldDescriptor as FD


def _is_repeated(f):
    r = getattr(f, "is_repeated", None)
    if r is not None:
        return r() if callable(r) else bool(r)
    return f.label == FD.LABEL_REPEATED


def _clear_defaults(msg):
    for f in msg.DESCRIPTOR.fields:
        if _is_repeated(f):
            if f.type == FD.TYPE_MESSAGE:
                for x in getattr(msg, f.name):
                    _clear_defaults(x)
            continue
        if f.type == FD.TYPE_MESSAGE:
            if msg.HasField(f.name):
                _clear_defaults(getattr(msg, f.name))
            continue
        if f.containing_oneof is not None:
            continue   # presence inside a oneof carries meaning (dim_value: 0 vs unset)
        try:
            has = msg.HasField(f.name)
        except ValueError:
            has = True
        if has and getattr(msg, f.name) == f.default_value:
            msg.ClearField(f.name)


def _sort_meta(entries):
    items = sorted(((e.key, e.value) for e in entries))
    del entries[:]
    for k, v in items:
        e = entries.add()
        e.key, e.value = k, v


def _norm_graph(g, keep_init_vi=None):
    inits = {t.name for t in g.initializer} | {s.values.name for s in g.sparse_initializer}
    if keep_init_vi is not None:
        # value-info of an initializer may be ADDED by the library; an entry the input already had must survive as it was
        inits = inits - keep_init_vi.get(g.name, set())
    names = set()
    for n in g.node:
        names.update(n.input)
        names.update(n.output)
    names.update(v.name for v in g.input)
    names.update(v.name for v in g.output)
    keep = [v for v in g.value_info if v.name in names and v.name not in inits and v.name not in {i.name for i in g.input} and v.name not in {o.name for o in g.output}]
    keep.sort(key=lambda v: v.name)
    keep = [onnx.ValueInfoProto.FromString(v.SerializeToString()) for v in keep]
    del g.value_info[:]
    g.value_info.extend(keep)
    _sort_meta(g.metadata_props)
    for v in list(g.input) + list(g.output) + list(g.value_info):
        _sort_meta(v.metadata_props)
    for t in g.initializer:
        _sort_meta(t.metadata_props)
    qa = sorted(g.quantization_annotation, key=lambda q: q.tensor_name)
    qa = [onnx.TensorAnnotation.FromString(q.SerializeToString()) for q in qa]
    del g.quantization_annotation[:]
    g.quantization_annotation.extend(qa)
    for q in g.quantization_annotation:
        _sort_meta(q.quant_parameter_tensor_names)
    for n in g.node:
        _norm_node(n, keep_init_vi)


def _norm_node(n, keep_init_vi=None):
    if n.domain == "ai.onnx":
        n.domain = ""
    while len(n.output) and n.output[-1] == "":
        del n.output[-1]
    _sort_meta(n.metadata_props)
    for a in n.attribute:
        if a.type == onnx.AttributeProto.GRAPH:
            _norm_graph(a.g, keep_init_vi)
        elif a.type == onnx.AttributeProto.GRAPHS:
            for g in a.graphs:
                _norm_graph(g, keep_init_vi)
        elif a.type == onnx.AttributeProto.TENSOR:
            _sort_meta(a.t.metadata_props)
        elif a.type == onnx.AttributeProto.TENSORS:
            for t in a.tensors:
                _sort_meta(t.metadata_props)


def _norm_opsets(entries):
    items = sorted((("" if o.domain == "ai.onnx" else o.domain), o.version) for o in entries)
    del entries[:]
    for d, v in items:
        e = entries.add()
        e.domain, e.version = d, v


def initializer_value_info(p: onnx.ModelProto):
    """{graph name: names of initializers that have a value-info entry} for every graph of the model"""
    out = {}

    def walk(g):
        inits = {t.name for t in g.initializer}
        out.setdefault(g.name, set()).update(v.name for v in g.value_info if v.name in inits)
        for n in g.node:
            for a in n.attribute:
                if a.type == onnx.AttributeProto.GRAPH:
                    walk(a.g)
                elif a.type == onnx.AttributeProto.GRAPHS:
                    for s_ in a.graphs:
                        walk(s_)

    walk(p.graph)
    return out


def norm(p: onnx.ModelProto, keep_init_vi=None) -> onnx.ModelProto:
    """keep_init_vi: initializer value-info entries (per graph name) that the ORIGINAL proto had - they are compared,
    entries beyond them are the documented addition and are dropped.  None = drop every initializer value-info."""
    q = onnx.ModelProto.FromString(p.SerializeToString())
    _norm_opsets(q.opset_import)
    _sort_meta(q.metadata_props)
    _norm_graph(q.graph, keep_init_vi)
    for f in q.functions:
        _norm_opsets(f.opset_import)
        _sort_meta(f.metadata_props)
        names = set(f.input) | set(f.output)
        for n in f.node:
            names.update(n.input)
            names.update(n.output)
            _norm_node(n)
        keep = sorted((v for v in f.value_info if v.name in names), key=lambda v: v.name)
        keep = [onnx.ValueInfoProto.FromString(v.SerializeToString()) for v in keep]
        del f.value_info[:]
        f.value_info.extend(keep)
        for v in f.value_info:
            _sort_meta(v.metadata_props)
    _clear_defaults(q)
    return q


def first_difference(a, b, path=""):
    """name of the first field in which two messages of the same type differ (None if equal)"""
    if a == b:
        return None
    for f in a.DESCRIPTOR.fields:
        x, y = getattr(a, f.name), getattr(b, f.name)
        here = f"{path}.{f.name}"
        if _is_repeated(f):
            if len(x) != len(y):
                label = lambda z: getattr(z, "name", None) or getattr(z, "key", None) or getattr(z, "tensor_name", None) or "?"  # noqa: E731
                if f.type == FD.TYPE_MESSAGE:
                    return f"{here}: {len(x)} entries {[label(z) for z in x][:8]} vs {len(y)} {[label(z) for z in y][:8]}"
                return f"{here}: {list(x)[:8]} vs {list(y)[:8]}"
            for i, (u, v) in enumerate(zip(x, y)):
                if f.type == FD.TYPE_MESSAGE:
                    d = first_difference(u, v, f"{here}[{getattr(u, 'name', None) or getattr(u, 'key', None) or i}]")
                    if d:
                        return d
                elif u != v:
                    return f"{here}[{i}]: {u!r} vs {v!r}"
            continue
        if f.type == FD.TYPE_MESSAGE:
            ha, hb = a.HasField(f.name), b.HasField(f.name)
            if ha != hb:
                return f"{here}: present {ha} vs {hb}"
            if ha:
                d = first_difference(x, y, here)
                if d:
                    return d
            continue
        try:
            ha, hb = a.HasField(f.name), b.HasField(f.name)
        except ValueError:
            ha = hb = True
        if ha != hb or x != y:
            return f"{here}: {x!r}{'' if ha else ' (unset)'} vs {y!r}{'' if hb else ' (unset)'}"
    return f"{path}: messages differ"
