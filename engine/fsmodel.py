"""In-memory POSIX-subset file system substituted for `os`, `shutil`, `tempfile`, `open` and `mmap` in
shadow copies of onnx_ir modules (C08, C09).

Every state-changing operation is a numbered *effect*.  Before effect number i is applied the model
(a) calls the harness hook `on_boundary(i)` - the state there is what a process dying between two
effects leaves behind - and (b) compares i with `fail_at`; when they are equal the effect raises
OSError instead of being applied.  `fail_at` may be a symbolic integer: the comparison then forks the
path, so the position of the failure is decided by the solver, not enumerated by hand.

Contracts assumed (POSIX / CPython documentation):
  os.replace(src, dst)   atomically makes dst name src's inode; a dst symlink itself is replaced
  open(p, "wb")          truncates an existing inode in place (same inode, other names see it) or creates one
  write / truncate       change the inode in place; a write of n > 1 bytes is two effects (a process can die
                         after a prefix was written)
  mmap                   maps the inode, not the name: after os.replace the mapping still shows the old bytes
  mkdtemp                creates a fresh, uniquely named directory
  remove/rmdir           raise FileNotFoundError / OSError(ENOTEMPTY) as documented
Durability (fsync ordering, power loss) is not modelled.
"""
from __future__ import annotations

import errno
import io
import posixpath
import types


class Inode:
    _n = 0

    def __init__(self, data=b"", mode=0o644):
        Inode._n += 1
        self.ino = Inode._n
        self.data = bytes(data)
        self.mode = mode
        self.nlink = 0
        self.records: list = []   # symbolic writes (tensor, position term, handle, thread) - C09


class FS:
    def __init__(self, cwd="/cwd"):
        self.files: dict[str, object] = {}   # absolute path -> Inode | ("dir",) | ("link", target)
        self.cwd = cwd
        self.n_effects = 0
        self.log: list[str] = []
        self.fail_at = None          # int | SInt | None
        self.fail_exc = None         # factory of the exception to raise (default OSError ENOSPC)
        self.on_boundary = None      # callable(index, label) | None
        self.failed = None           # index of the effect that was made to fail
        self.fail_gap = None         # int | SInt | None: distance of a second failing effect from the first
        self.failed2 = None
        self.open_handles: list = []
        self.mkdir_p(cwd)
        self.tmp_counter = 0

    # ---- paths -------------------------------------------------------------------------------
    def abs(self, p):
        p = posixpath.join(self.cwd, posixpath.expanduser(str(p))) if not posixpath.isabs(str(p)) else str(p)
        return posixpath.normpath(p)

    def resolve(self, p, follow_last=True, depth=0):
        """absolute path with symlinks resolved (all components; the last one only if follow_last)"""
        p = self.abs(p)
        if depth > 20:
            raise OSError(errno.ELOOP, "too many symlinks", p)
        parts = [x for x in p.split("/") if x]
        cur = "/"
        for i, comp in enumerate(parts):
            nxt = posixpath.join(cur, comp)
            node = self.files.get(nxt)
            last = i == len(parts) - 1
            if isinstance(node, tuple) and node[0] == "link" and (follow_last or not last):
                tgt = node[1] if posixpath.isabs(node[1]) else posixpath.join(cur, node[1])
                rest = "/".join(parts[i + 1:])
                return self.resolve(posixpath.join(tgt, rest) if rest else tgt, follow_last, depth + 1)
            cur = nxt
        return cur

    def mkdir_p(self, d):
        d = self.abs(d)
        parts = [x for x in d.split("/") if x]
        cur = "/"
        self.files.setdefault("/", ("dir",))
        for comp in parts:
            cur = posixpath.join(cur, comp)
            self.files.setdefault(cur, ("dir",))

    # ---- harness-side helpers (no effects) -----------------------------------------------------
    def put(self, path, data, mode=0o644):
        path = self.abs(path)
        self.mkdir_p(posixpath.dirname(path))
        ino = Inode(data, mode)
        ino.nlink = 1
        self.files[path] = ino
        return ino

    def symlink(self, path, target):
        path = self.abs(path)
        self.mkdir_p(posixpath.dirname(path))
        self.files[path] = ("link", target)

    def hardlink(self, path, existing):
        ino = self.files[self.resolve(existing)]
        ino.nlink += 1
        self.files[self.abs(path)] = ino

    def inode(self, path):
        try:
            n = self.files.get(self.resolve(path))
        except OSError:
            return None
        return n if isinstance(n, Inode) else None

    def read(self, path):
        n = self.inode(path)
        return None if n is None else n.data

    def listing(self):
        """{path: ('file', bytes, mode, ino) | ('dir',) | ('link', target)} - for snapshots"""
        out = {}
        for p, n in sorted(self.files.items()):
            out[p] = ("file", n.data, n.mode, n.ino) if isinstance(n, Inode) else n
        return out

    # ---- effects -----------------------------------------------------------------------------
    def effect(self, label):
        i = self.n_effects
        if self.on_boundary is not None:
            self.on_boundary(i, label)
        self.n_effects += 1
        self.log.append(label)
        fa = self.fail_at
        if fa is not None and self.failed is None:
            if fa == i:   # may be symbolic: forks the path
                self.failed = i
                if self.fail_exc is not None:
                    raise self.fail_exc(i, label)
                raise OSError(errno.ENOSPC, f"injected failure of effect {i} ({label})")
        elif self.fail_gap is not None and self.failed is not None and self.failed2 is None:
            if self.failed + self.fail_gap == i:   # a second failure `gap` effects after the first one (fault sequences)
                self.failed2 = i
                raise OSError(errno.EIO, f"second injected failure, effect {i} ({label})")

    # ---- os ----------------------------------------------------------------------------------
    def exists(self, p):
        try:
            return self.resolve(p) in self.files
        except OSError:
            return False

    def lexists(self, p):
        return self.resolve(p, follow_last=False) in self.files

    def islink(self, p):
        n = self.files.get(self.resolve(p, follow_last=False))
        return isinstance(n, tuple) and n[0] == "link"

    def isdir(self, p):
        try:
            n = self.files.get(self.resolve(p))
        except OSError:
            return False
        return isinstance(n, tuple) and n[0] == "dir"

    def isfile(self, p):
        return self.inode(p) is not None

    def realpath(self, p, strict=False):
        try:
            return self.resolve(p)
        except OSError:
            return self.abs(p)

    def samefile(self, a, b):
        na, nb = self.files.get(self.resolve(a)), self.files.get(self.resolve(b))
        if na is None:
            raise FileNotFoundError(errno.ENOENT, "No such file or directory", str(a))
        if nb is None:
            raise FileNotFoundError(errno.ENOENT, "No such file or directory", str(b))
        return na is nb

    def stat(self, p, follow=True):
        q = self.resolve(p, follow_last=follow)
        n = self.files.get(q)
        if n is None:
            raise FileNotFoundError(errno.ENOENT, "No such file or directory", str(p))
        if isinstance(n, Inode):
            return types.SimpleNamespace(st_mode=0o100000 | n.mode, st_nlink=n.nlink, st_size=len(n.data), st_ino=n.ino)
        if n[0] == "dir":
            return types.SimpleNamespace(st_mode=0o040755, st_nlink=2, st_size=0, st_ino=hash(q) & 0xFFFF)
        return types.SimpleNamespace(st_mode=0o120777, st_nlink=1, st_size=len(n[1]), st_ino=hash(q) & 0xFFFF)

    def remove(self, p):
        q = self.resolve(p, follow_last=False)
        n = self.files.get(q)
        if n is None:
            raise FileNotFoundError(errno.ENOENT, "No such file or directory", str(p))
        if isinstance(n, tuple) and n[0] == "dir":
            raise IsADirectoryError(errno.EISDIR, "Is a directory", str(p))
        self.effect(f"remove {q}")
        if isinstance(n, Inode):
            n.nlink -= 1
        del self.files[q]

    def rmdir(self, p):
        q = self.resolve(p, follow_last=False)
        n = self.files.get(q)
        if n is None:
            raise FileNotFoundError(errno.ENOENT, "No such file or directory", str(p))
        if not (isinstance(n, tuple) and n[0] == "dir"):
            raise NotADirectoryError(errno.ENOTDIR, "Not a directory", str(p))
        if any(k != q and posixpath.dirname(k) == q for k in self.files):
            raise OSError(errno.ENOTEMPTY, "Directory not empty", str(p))
        self.effect(f"rmdir {q}")
        del self.files[q]

    def replace(self, src, dst):
        s = self.resolve(src, follow_last=False)
        d = self.resolve(dst, follow_last=False)
        n = self.files.get(s)
        if n is None:
            raise FileNotFoundError(errno.ENOENT, "No such file or directory", str(src))
        if not isinstance(self.files.get(posixpath.dirname(d)), tuple):
            raise FileNotFoundError(errno.ENOENT, "No such file or directory", str(dst))
        old = self.files.get(d)
        if isinstance(old, tuple) and old[0] == "dir":
            raise IsADirectoryError(errno.EISDIR, "Is a directory", str(dst))
        self.effect(f"replace {s} -> {d}")
        if isinstance(old, Inode):
            old.nlink -= 1
        self.files[d] = n
        del self.files[s]

    def mkdir(self, p, mode=0o777):
        q = self.abs(p)
        if q in self.files:
            raise FileExistsError(errno.EEXIST, "File exists", str(p))
        self.effect(f"mkdir {q}")
        self.files[q] = ("dir",)

    def makedirs(self, p, mode=0o777, exist_ok=False):
        q = self.abs(p)
        if q in self.files:
            if exist_ok and self.isdir(q):
                return
            raise FileExistsError(errno.EEXIST, "File exists", str(p))
        self.effect(f"makedirs {q}")
        self.mkdir_p(q)

    def listdir(self, p="."):
        q = self.resolve(p)
        if not self.isdir(q):
            raise NotADirectoryError(errno.ENOTDIR, "Not a directory", str(p))
        return sorted(posixpath.basename(k) for k in self.files if k != q and posixpath.dirname(k) == q)

    def mkdtemp(self, suffix=None, prefix=None, dir=None):  # noqa: A002
        d = self.resolve(dir if dir is not None else "/tmp")
        if not self.isdir(d):
            raise FileNotFoundError(errno.ENOENT, "No such file or directory", str(dir))
        self.tmp_counter += 1
        q = posixpath.join(d, f"{prefix or 'tmp'}T{self.tmp_counter}{suffix or ''}")
        self.effect(f"mkdtemp {q}")
        self.files[q] = ("dir",)
        return q if dir is None or posixpath.isabs(str(dir)) else posixpath.join(str(dir), posixpath.basename(q))

    def copymode(self, src, dst, follow_symlinks=True):
        s, d = self.inode(src), self.inode(dst)
        if s is None or d is None:
            raise FileNotFoundError(errno.ENOENT, "No such file or directory")
        self.effect(f"copymode {self.abs(src)} -> {self.abs(dst)}")
        d.mode = s.mode

    def chmod(self, p, mode):
        n = self.inode(p)
        if n is None:
            raise FileNotFoundError(errno.ENOENT, "No such file or directory", str(p))
        self.effect(f"chmod {self.abs(p)}")
        n.mode = mode

    # ---- open --------------------------------------------------------------------------------
    def open(self, path, mode="r", *a, **kw):
        if "b" not in mode:
            raise NotImplementedError("fsmodel: text-mode open")
        q = self.resolve(path)
        n = self.files.get(q)
        if isinstance(n, tuple):
            raise IsADirectoryError(errno.EISDIR, "Is a directory", str(path))
        if "r" in mode:
            if n is None:
                raise FileNotFoundError(errno.ENOENT, "No such file or directory", str(path))
        elif "w" in mode:
            if not self.isdir(posixpath.dirname(q)):
                raise FileNotFoundError(errno.ENOENT, "No such file or directory", str(path))
            if n is None:
                self.effect(f"create {q}")
                n = Inode()
                n.nlink = 1
                self.files[q] = n
            elif len(n.data):
                self.effect(f"truncate-on-open {q}")
                n.data = b""
        elif "x" in mode:
            if n is not None:
                raise FileExistsError(errno.EEXIST, "File exists", str(path))
            self.effect(f"create {q}")
            n = Inode()
            n.nlink = 1
            self.files[q] = n
        else:
            raise NotImplementedError(f"fsmodel: open mode {mode!r}")
        h = Handle(self, n, q, mode)
        self.open_handles.append(h)
        return h

    # ---- namespaces handed to shadow modules ---------------------------------------------------
    def namespaces(self):
        fs = self
        path = types.SimpleNamespace(
            join=posixpath.join, dirname=posixpath.dirname, basename=posixpath.basename, normpath=posixpath.normpath,
            isabs=posixpath.isabs, splitext=posixpath.splitext, split=posixpath.split, normcase=posixpath.normcase,
            sep="/", relpath=posixpath.relpath, commonpath=posixpath.commonpath, commonprefix=posixpath.commonprefix,
            abspath=fs.abs, exists=fs.exists, lexists=fs.lexists, islink=fs.islink, isdir=fs.isdir, isfile=fs.isfile,
            realpath=fs.realpath, samefile=fs.samefile, getsize=lambda p: fs.stat(p).st_size, expanduser=posixpath.expanduser,
        )
        import os as real_os

        os_ns = types.SimpleNamespace(
            path=path, sep="/", fspath=real_os.fspath, PathLike=real_os.PathLike, remove=fs.remove, unlink=fs.remove,
            rmdir=fs.rmdir, replace=fs.replace, rename=fs.replace, stat=fs.stat, lstat=lambda p: fs.stat(p, follow=False),
            mkdir=fs.mkdir, makedirs=fs.makedirs, listdir=fs.listdir, getcwd=lambda: fs.cwd, chmod=fs.chmod, name="posix",
            environ={}, linesep="\n", SEEK_SET=0, SEEK_CUR=1, SEEK_END=2,
        )
        shutil_ns = types.SimpleNamespace(copymode=fs.copymode)
        tempfile_ns = types.SimpleNamespace(mkdtemp=fs.mkdtemp)
        mmap_ns = types.SimpleNamespace(mmap=lambda fileno, length, access=None, **kw: Mmap(fs, fileno), ACCESS_READ=1)
        return dict(os=os_ns, shutil=shutil_ns, tempfile=tempfile_ns, open=fs.open, mmap=mmap_ns)


class Handle:
    """binary file object on an inode"""

    def __init__(self, fs, inode, path, mode):
        self.fs = fs
        self.inode = inode
        self.path = path
        self.mode = mode
        self.pos = 0
        self.closed = False
        self.writable_ = any(c in mode for c in "wxa+")
        self.owner = None   # virtual thread that opened it (set by the harness' open wrapper)

    def _chk(self):
        if self.closed:
            raise ValueError("I/O operation on closed file.")

    def fileno(self):
        self._chk()
        if self.writable_:
            # destinations have no OS-level descriptor in this model: the code under test takes its portable
            # write paths (file.write); descriptor fast paths are the subject of C04
            raise io.UnsupportedOperation("fileno")
        return self

    def readable(self):
        return "r" in self.mode or "+" in self.mode

    def writable(self):
        return self.writable_

    def seekable(self):
        return True

    def seek(self, off, whence=0):
        self._chk()
        if whence == 0:
            self.pos = off
        elif whence == 1:
            self.pos = self.pos + off
        else:
            self.pos = len(self.inode.data) + off
        return self.pos

    def tell(self):
        self._chk()
        return self.pos

    def flush(self):
        self._chk()

    def read(self, n=-1):
        self._chk()
        d = self.inode.data
        out = d[self.pos:] if n is None or n < 0 else d[self.pos:self.pos + n]
        self.pos += len(out)
        return out

    def _store(self, pos, b):
        d = self.inode.data
        if pos > len(d):
            d = d + b"\0" * (pos - len(d))
        self.inode.data = d[:pos] + b + d[pos + len(b):]

    def write(self, b):
        self._chk()
        if not self.writable_:
            raise io.UnsupportedOperation("not writable")
        b = bytes(b)
        if len(b) > 1:
            h = (len(b) + 1) // 2
            self.fs.effect(f"write {self.path}@{self.pos}+{h} (first part of {len(b)})")
            self._store(self.pos, b[:h])
            self.fs.effect(f"write {self.path}@{self.pos + h}+{len(b) - h} (rest of {len(b)})")
            self._store(self.pos + h, b[h:])
        elif b:
            self.fs.effect(f"write {self.path}@{self.pos}+1")
            self._store(self.pos, b)
        self.pos += len(b)
        return len(b)

    def truncate(self, size=None):
        self._chk()
        size = self.pos if size is None else size
        self.inode.records.append(("truncate", size, self))
        if isinstance(size, int):
            if size != len(self.inode.data):
                self.fs.effect(f"truncate {self.path} to {size}")
                d = self.inode.data
                self.inode.data = d[:size] if size <= len(d) else d + b"\0" * (size - len(d))
        else:  # symbolic size (C09): recorded, content is tracked through records only
            self.fs.effect(f"truncate {self.path} to <sym>")
        return size

    def close(self):
        self.closed = True

    def __enter__(self):
        self._chk()
        return self

    def __exit__(self, *a):
        self.close()
        return False


class Mmap:
    """read-only mapping of an inode (the mapping follows the inode, not the name)"""

    def __init__(self, fs, handle):
        self.inode = handle.inode
        self.closed = False

    def __buffer__(self, flags):
        return memoryview(self.inode.data)

    def __len__(self):
        return len(self.inode.data)

    def __getitem__(self, k):
        if self.closed:
            raise ValueError("mmap closed or invalid")
        return self.inode.data[k]

    def close(self):
        self.closed = True
