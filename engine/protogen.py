"""Kitchen-sink ONNX protos built directly with protobuf/onnx.helper (NOT through the IR), switched by
feature flags - the input family of the proto-level checks (C02, C17).  Every construct the property
text of C02 names has a flag; with all flags off the result is a small plain model."""
from __future__ import annotations

import numpy as np
import onnx
from onnx import TensorProto as TP
from onnx import helper as H

FEATURES = ["alias_domain", "value_info_order", "trailing_outputs", "explicit_defaults", "metadata", "denotations", "nested_types",
            "quantization", "devices", "functions", "subgraphs", "tensor_storage", "attributes", "more_dtypes"]


def _vi(name, elem=TP.FLOAT, shape=(2, 3)):
    return H.make_tensor_value_info(name, elem, list(shape) if shape is not None else None)


def _meta(entries, pairs):
    for k, v in pairs:
        e = entries.add()
        e.key, e.value = k, v


def tensors_storage():
    """initializers using every storage field"""
    out = []
    out.append(H.make_tensor("t_float", TP.FLOAT, [2], vals=[1.5, -2.0]))                              # float_data
    out.append(H.make_tensor("t_double", TP.DOUBLE, [2], vals=[1.25, 3.0]))                            # double_data
    out.append(H.make_tensor("t_int32", TP.INT32, [3], vals=[1, -2, 3]))                               # int32_data
    out.append(H.make_tensor("t_int64", TP.INT64, [2], vals=[2 ** 40, -1]))                            # int64_data
    out.append(H.make_tensor("t_uint64", TP.UINT64, [2], vals=[2 ** 63, 7]))                           # uint64_data
    out.append(H.make_tensor("t_uint32", TP.UINT32, [2], vals=[2 ** 31, 9]))                           # uint64_data
    out.append(H.make_tensor("t_bool", TP.BOOL, [3], vals=[1, 0, 1]))                                  # int32_data
    out.append(H.make_tensor("t_int8", TP.INT8, [2], vals=[-128, 127]))                                # int32_data
    out.append(H.make_tensor("t_uint16", TP.UINT16, [2], vals=[65535, 1]))                             # int32_data
    out.append(H.make_tensor("t_f16", TP.FLOAT16, [2], vals=np.array([1.5, -0.25], dtype=np.float16).view(np.uint16).tolist(), raw=False))   # int32_data (bits)
    out.append(H.make_tensor("t_string", TP.STRING, [2], vals=[b"ab", b"\xff\x00"]))                   # string_data
    out.append(H.make_tensor("t_raw", TP.FLOAT, [2, 2], vals=np.arange(4, dtype=np.float32).tobytes(), raw=True))
    out.append(H.make_tensor("t_scalar", TP.INT64, [], vals=[5]))
    out.append(H.make_tensor("t_empty", TP.FLOAT, [0], vals=[]))
    ext = TP()
    ext.name, ext.data_type = "t_ext", TP.FLOAT
    ext.dims.extend([2, 2])
    ext.data_location = TP.EXTERNAL
    for k, v in (("location", "weights.bin"), ("offset", "16"), ("length", "16")):
        e = ext.external_data.add()
        e.key, e.value = k, v
    out.append(ext)
    return out


def tensors_more_dtypes():
    out = []
    out.append(H.make_tensor("d_bf16", TP.BFLOAT16, [2], vals=np.array([0x3FC0, 0xBE80], dtype=np.uint16).tobytes(), raw=True))
    out.append(H.make_tensor("d_f8", TP.FLOAT8E4M3FN, [3], vals=bytes([0x38, 0xB8, 0x00]), raw=True))
    out.append(H.make_tensor("d_f8b", TP.FLOAT8E5M2, [2], vals=bytes([0x3C, 0xBC]), raw=True))
    out.append(H.make_tensor("d_u4", TP.UINT4, [3], vals=bytes([0x21, 0x03]), raw=True))
    out.append(H.make_tensor("d_i4", TP.INT4, [5], vals=bytes([0xF1, 0x72, 0x08]), raw=True))
    out.append(H.make_tensor("d_c64", TP.COMPLEX64, [1], vals=np.array([1 + 2j], dtype=np.complex64).tobytes(), raw=True))
    out.append(H.make_tensor("d_u8", TP.UINT8, [2, 1], vals=bytes([255, 0]), raw=True))
    out.append(H.make_tensor("d_i16", TP.INT16, [2], vals=np.array([-3, 4], dtype=np.int16).tobytes(), raw=True))
    if hasattr(TP, "UINT2"):
        out.append(H.make_tensor("d_u2", TP.UINT2, [5], vals=bytes([0b11100100, 0b01]), raw=True))
    if hasattr(TP, "FLOAT4E2M1"):
        out.append(H.make_tensor("d_f4", TP.FLOAT4E2M1, [3], vals=bytes([0x21, 0x0F]), raw=True))
    return out


def build(flags: dict, ir_version=10, opset=18) -> onnx.ModelProto:
    f = lambda k: bool(flags.get(k))  # noqa: E731
    dom = "ai.onnx" if f("alias_domain") else ""
    x, y = _vi("x"), _vi("y")
    cond = _vi("cond", TP.BOOL, ())
    nodes = []
    inits = [H.make_tensor("w", TP.FLOAT, [2, 3], vals=(np.arange(6, dtype=np.float32) / 2).tolist())]
    value_info = []
    n_add = H.make_node("Add", ["x", "w"], ["a"], name="n_add", domain=dom)
    n_mul = H.make_node("Mul", ["a", "y"], ["b"], name="n_mul")
    n_mul.doc_string = "multiply"
    nodes += [n_add, n_mul]
    value_info += [_vi("a"), _vi("b")]
    outs = [_vi("out")]
    last = "b"
    if f("trailing_outputs"):
        n = H.make_node("Dropout", ["b"], ["dr", ""], name="n_drop")
        nodes.append(n)
        n2 = H.make_node("Split", ["dr"], ["", "sp1", ""], name="n_split", axis=0, num_outputs=3)   # leading/trailing unnamed outputs
        nodes.append(n2)
        value_info.append(_vi("dr"))
        last = "dr"
    if f("attributes"):
        n = H.make_node("AttrZoo", [last], ["az"], name="n_attr", domain="custom.ops",
                        a_f=1.5, a_i=-3, a_s="text", a_fs=[0.5, 1.5], a_is=[1, 2, 3], a_ss=["p", "q"],
                        a_t=H.make_tensor("at", TP.INT32, [2], vals=[4, 5]),
                        a_ts=[H.make_tensor("at0", TP.FLOAT, [1], vals=[1.0]), H.make_tensor("at1", TP.INT64, [1], vals=[2])],
                        a_tp=H.make_tensor_type_proto(TP.FLOAT, [1, None]),
                        a_zero=0, a_zero_f=0.0, a_empty_s="")
        e = n.attribute.add()
        e.name, e.type = "a_empty_is", onnx.AttributeProto.INTS
        tps = H.make_attribute("a_tps", [H.make_tensor_type_proto(TP.INT64, ["N"]), H.make_sequence_type_proto(H.make_tensor_type_proto(TP.FLOAT, [2]))])
        n.attribute.append(tps)
        for a in n.attribute:
            if a.name in ("a_f", "a_t"):
                a.doc_string = f"doc of {a.name}"
        nodes.append(n)
        last = "az"
    if f("subgraphs"):
        t1 = H.make_node("Add", ["a", "tw"], ["t1"], name="t_add")              # captures outer 'a'
        then_g = H.make_graph([t1], "then_g", [], [_vi("t1")], initializer=[H.make_tensor("tw", TP.FLOAT, [2, 3], vals=[1.0] * 6)])
        e_in = H.make_node("Sub", ["x", last], ["e1"], name="e_sub")            # captures outer input and node output
        i1 = H.make_node("Neg", ["e1"], ["i1"], name="i_neg")
        inner_then = H.make_graph([i1], "inner_then", [], [_vi("i1")])
        i2 = H.make_node("Abs", ["a"], ["i2"], name="i_abs")                    # two scopes up
        inner_else = H.make_graph([i2], "inner_else", [], [_vi("i2")])
        inner_if = H.make_node("If", ["cond"], ["e2"], name="inner_if", then_branch=inner_then, else_branch=inner_else)
        else_g = H.make_graph([e_in, inner_if], "else_g", [], [_vi("e2")])
        else_g.doc_string = "else branch"
        iff = H.make_node("If", ["cond"], ["ifo"], name="n_if", then_branch=then_g, else_branch=else_g)
        nodes.append(iff)
        value_info.append(_vi("ifo"))
        last = "ifo"
        # an operator with a list of graphs
        b1 = H.make_graph([H.make_node("Neg", ["a"], ["g1"], name="g_neg")], "body1", [], [_vi("g1")])
        b2 = H.make_graph([H.make_node("Abs", ["x"], ["g2"], name="g_abs")], "body2", [], [_vi("g2")])
        multi = H.make_node("Branches", ["cond"], ["mo"], name="n_multi", domain="custom.ops")
        multi.attribute.append(H.make_attribute("branches", [b1, b2]))
        nodes.append(multi)
    fns = []
    opsets = [H.make_opsetid(dom, opset)]
    if f("attributes") or f("subgraphs"):
        opsets.append(H.make_opsetid("custom.ops", 1))
    if f("functions"):
        fx = "fx"
        lr = H.make_node("LeakyRelu", [fx], ["f1"], name="f_lr")
        ra = lr.attribute.add()
        ra.name, ra.ref_attr_name, ra.type = "alpha", "alpha", onnx.AttributeProto.FLOAT
        ra.doc_string = "forwarded"
        el = H.make_node("Elu", ["f1"], ["f2"], name="f_el")
        rb = el.attribute.add()
        rb.name, rb.ref_attr_name, rb.type = "alpha", "beta", onnx.AttributeProto.FLOAT
        fn = H.make_function("local", "scale", [fx], ["f2"], [lr, el], [H.make_opsetid("", opset)], attributes=["beta"],
                             attribute_protos=[H.make_attribute("alpha", 2.0)], doc_string="scale fn")
        if ir_version >= 10:      # FunctionProto.value_info exists from IR version 10
            fn.value_info.extend([_vi("fx"), _vi("f1")])
        fns.append(fn)
        fn2 = H.make_function("local", "scale", ["gx"], ["g1o"], [H.make_node("Neg", ["gx"], ["g1o"], name="g_n")], [H.make_opsetid("", opset)])
        fn2.overload = "neg"
        fns.append(fn2)
        c1 = H.make_node("scale", [last], ["fo1"], name="n_call", domain="local", alpha=0.25, beta=1.0)
        c2 = H.make_node("scale", ["fo1"], ["fo2"], name="n_call_ov", domain="local")
        c2.overload = "neg"
        nodes += [c1, c2]
        opsets.append(H.make_opsetid("local", 1))
        last = "fo2"
    if f("tensor_storage"):
        inits += tensors_storage()
    if f("more_dtypes"):
        inits += tensors_more_dtypes()
    nodes.append(H.make_node("Identity", [last], ["out"], name="n_out"))
    inputs = [x, y, cond]
    if f("nested_types"):
        opt = H.make_value_info("opt_in", H.make_optional_type_proto(H.make_sequence_type_proto(H.make_tensor_type_proto(TP.FLOAT, [2, "N"]))))
        seq = H.make_value_info("seq_in", H.make_sequence_type_proto(H.make_tensor_type_proto(TP.INT64, None)))
        sp = H.make_value_info("sparse_in", H.make_sparse_tensor_type_proto(TP.FLOAT, [3, None]))
        inputs += [opt, seq, sp]
        nodes.append(H.make_node("OptionalHasElement", ["opt_in"], ["has"], name="n_has"))
        value_info.append(_vi("has", TP.BOOL, ()))
    if f("denotations"):
        d = H.make_tensor_value_info("den_in", TP.FLOAT, [1, "C", None, 4])
        d.type.denotation = "TENSOR"
        names = ["DATA_BATCH", "DATA_CHANNEL", "DATA_FEATURE", ""]
        for dim, nm in zip(d.type.tensor_type.shape.dim, names):
            if nm:
                dim.denotation = nm
        inputs.append(d)
    g = H.make_graph(nodes, "main_graph", inputs, outs, initializer=inits, value_info=value_info)
    g.doc_string = "main graph doc"
    if f("value_info_order"):
        vis = list(g.value_info)[::-1]
        del g.value_info[:]
        g.value_info.extend(vis)
        g.value_info.append(_vi("not_a_value_of_this_graph"))
        g.value_info.append(_vi("w"))                       # value-info naming an initializer
        # an initializer whose own value-info gives the element type only (unknown rank), and one with a symbolic dim
        g.initializer.append(H.make_tensor("w_rankless", TP.FLOAT, [1, 4], vals=[0.5] * 4))
        g.value_info.append(H.make_tensor_value_info("w_rankless", TP.FLOAT, None))
        g.initializer.append(H.make_tensor("w_symdim", TP.FLOAT, [2], vals=[0.5, 1.5]))
        g.value_info.append(H.make_tensor_value_info("w_symdim", TP.FLOAT, ["K"]))
        g.node.append(H.make_node("Identity", ["w_rankless"], ["wr_used"], name="n_use_rankless"))      # referenced, so the entries are not 'unreferenced'
        g.node.append(H.make_node("Identity", ["w_symdim"], ["ws_used"], name="n_use_symdim"))
    if f("quantization"):
        qa = g.quantization_annotation.add()
        qa.tensor_name = "a"
        _meta(qa.quant_parameter_tensor_names, [("SCALE_TENSOR", "w"), ("ZERO_POINT_TENSOR", "w")])
        # one annotation per role a value can have: graph input, initializer, node-produced graph output
        for nm in ("x", "w", "out"):
            q = g.quantization_annotation.add()
            q.tensor_name = nm
            _meta(q.quant_parameter_tensor_names, [("SCALE_TENSOR", "w")])
        for n in g.node:        # and inside nested bodies (their node-produced outputs)
            for a in n.attribute:
                if a.type == onnx.AttributeProto.GRAPH and a.g.output:
                    q = a.g.quantization_annotation.add()
                    q.tensor_name = a.g.output[0].name
                    _meta(q.quant_parameter_tensor_names, [("SCALE_TENSOR", "w"), ("ZERO_POINT_TENSOR", "w")])
    m = H.make_model(g, opset_imports=opsets, ir_version=ir_version, producer_name="verif-protogen", producer_version="1.2", domain="dom", model_version=7,
                     doc_string="model doc", functions=fns)
    if f("explicit_defaults"):
        m.model_version = 0          # explicitly set to the default
        m.graph.node[0].doc_string = ""
        m.domain = ""
        m.graph.initializer[0].doc_string = ""
    if f("metadata"):
        _meta(m.metadata_props, [("mk2", "mv2"), ("mk1", "mv1")])
        _meta(m.graph.metadata_props, [("gk", "gv")])
        _meta(m.graph.node[1].metadata_props, [("nk", "nv"), ("nk0", "nv0")])
        _meta(m.graph.initializer[0].metadata_props, [("tk", "tv")])
        for vi in m.graph.value_info[:1]:
            _meta(vi.metadata_props, [("vk", "vv")])
        _meta(m.graph.input[0].metadata_props, [("ik", "iv")])
        for fn in m.functions:
            _meta(fn.metadata_props, [("fk", "fv")])
        for n in m.graph.node:
            for a in n.attribute:
                if a.type == onnx.AttributeProto.TENSOR:
                    _meta(a.t.metadata_props, [("atk", "atv")])
    if f("devices") and ir_version >= 11 and hasattr(m, "configuration"):
        c = m.configuration.add()
        c.name, c.num_devices = "cfg", 2
        c.device.extend(["d0", "d1"])
        nd = m.graph.node[0].device_configurations.add()
        nd.configuration_id = "cfg"
        nd.pipeline_stage = 1
        s = nd.sharding_spec.add()
        s.tensor_name = "x"
        s.device.extend([0, 1])
        sd = s.sharded_dim.add()
        sd.axis = 0
        ss = sd.simple_sharding.add()
        ss.num_shards = 2
    return m
