"""C07 — external-data save/load: layout well formed, threshold split exact, model restored.

Engine E2 (zsym): the real layout / sharding / threshold / restore code of
`onnx_ir.external_data`, `onnx_ir._safetensors` and `onnx_ir._io.save` runs on z3 proxies.  Every
tensor size, the threshold, align_threshold, max_shard_size_bytes and (where stated) the alignment
are unbounded mathematical integers; the number of tensors K is the bound.
"""
from __future__ import annotations

import logging
import os

import z3

from engine import shadow, zsym
from engine.common import Inconclusive
from engine.zsym import SBool, SInt, explore, rebind, zint
from engine.zsym import sym_int as SV

LEVEL = "other"
TECHNIQUE = "symbolic execution of the real layout/shard/threshold/restore functions on z3 Int proxies (zsym) + SMT (z3, LIA/NIA), bounded in the number of tensors"

logging.disable(logging.CRITICAL)


def _sym_int_cast(x, *a):
    import builtins

    if isinstance(x, zsym.SReal):
        return x.__trunc__()
    if isinstance(x, zsym.SInt):
        return x
    return builtins.int(x, *a)


class FT:
    """Duck-typed tensor: only the attributes the layout code reads."""

    def __init__(self, nbytes, name="t"):
        self.nbytes = nbytes
        self.name = name
        import onnx_ir as _ir

        self.dtype = _ir.DataType.UINT8     # one byte per element: size == nbytes
        self.size = nbytes
        self.shape = None

    def __repr__(self):
        return f"FT({self.name})"


def _layout_spec(sizes, al, thr):
    """ONNX external-data layout as the documentation states it, directly in z3."""
    end = z3.IntVal(0)
    offs = []
    for s in sizes:
        if al is None:
            off = end
        else:
            f = z3.If(al > 4096, al, z3.IntVal(4096))
            off = z3.If(s > thr, (end + f - 1) / f * f, end)
        offs.append(off)
        end = off + s
    return offs, end


def _mk_al(kind):
    """alignment: None, a concrete int, or the symbolic Int 'al'."""
    if kind is None:
        return (lambda: None), None, []
    if kind == "sym":
        a = z3.Int("al")
        return (lambda: SV(a)), a, [a > 0]
    return (lambda: kind), z3.IntVal(kind), []


# ---------------------------------------------------------------------------------------------


def ob_align_step(chk, ed):
    """Single step, everything symbolic (inductive step of the layout for any number of tensors)."""
    cur, size, al, thr = z3.Ints("cur size al thr")
    assume = [cur >= 0, size >= 0, al > 0, thr >= 0]

    def body_sym():
        off = ed._align_offset(SV(cur), SV(size), SV(al), SV(thr))
        o = zint(off)
        f = z3.If(al > 4096, al, 4096)
        return z3.If(size > thr, z3.And(o % f == 0, o >= cur, o - cur < f), o == cur)

    def body_none():
        off = ed._align_offset(SV(cur), SV(size), None, SV(thr))
        return zint(off) == cur

    for name, body in (("align_step[alignment symbolic]", body_sym), ("align_step[alignment None]", body_none)):
        r = explore(body, assume)
        _account(chk, name, r, dict(cur="Int>=0", size="Int>=0", alignment="Int>0", align_threshold="Int>=0"),
                 lambda m: _replay_align(m, cur, size, al, thr, name))
    # vacuity twin
    r = explore(lambda: (ed._align_offset(SV(cur), SV(size), SV(al), SV(thr)), z3.BoolVal(False))[1], assume)
    if r.cex is None:
        raise Inconclusive("align_step reachability twin not violated (vacuous assumptions)")
    chk.vacuity_ok("align_step")


def _replay_align(m, cur, size, al, thr, name):
    from onnx_ir import external_data as ed

    c, s, a, t = (zsym.model_int(m, x) for x in (cur, size, al, thr))
    a_arg = None if "None" in name else a
    off = ed._align_offset(c, s, a_arg, t)
    if a_arg is None or s <= t:
        bad = off != c
    else:
        f = max(4096, a)
        bad = not (off % f == 0 and 0 <= off - c < f)
    return bad, dict(call="_align_offset", args=[c, s, a_arg, t], got=off)


def _account(chk, name, r, bounds, replay, body=None):
    if body is not None and r.cex is not None:
        # concrete replay = the same body on plain ints from the model, outside the engine
        user = replay

        def replay(model):
            holds, _ = zsym.concrete_run(body, model)
            _, rec = user(model)
            return (not holds), rec
    chk.add_stats(r.stats())
    chk.case(name)
    chk.sample({"obligation": name, "paths": r.paths, "queries": r.queries, "symbolic": bounds})
    if r.unknown:
        chk.note_inconclusive(f"{name}: solver answered unknown on {len(r.unknown)} path(s)")
    if r.cex is not None:
        model = r.cex[0]
        bad, rec = replay(model)
        if bad:
            chk.violation(f"C07:{name.split('[')[0]}", f"{name}: counterexample reproduced on the real code", {"obligation": name, **rec})
        else:
            chk.note_inconclusive(f"{name}: solver counterexample did not reproduce concretely: {rec}")


def ob_layout(chk, ed, K, alkind):
    """`convert_tensors_to_external` (real) with the writer replaced by a recorder."""
    sizes = [z3.Int(f"s{i}") for i in range(K)]
    thr = z3.Int("thr")
    al_f, al_t, al_assume = _mk_al(alkind)
    assume = [s >= 0 for s in sizes] + [thr >= 0] + al_assume
    name = f"layout[K={K},alignment={alkind}]"

    def body():
        rec = {}
        al_arg = al_f()

        def fake_write(tensors, infos, path, **kw):
            rec["tensors"] = list(tensors)
            rec["infos"] = list(infos)
            rec["path"] = path

        def fake_create(tensor, info, base_dir, relative_path):
            return (tensor, info)

        conv = rebind(ed.convert_tensors_to_external, _write_external_data=fake_write, _create_external_tensor=fake_create)
        ts = [FT(SV(s), f"t{i}") for i, s in enumerate(sizes)]
        out = conv(ts, "base", "m.data", alignment=al_arg, align_threshold=SV(thr))
        if len(out) != K or rec["tensors"] != ts or [o[0] for o in out] != ts:
            return False
        if any(o[1] is not i for o, i in zip(out, rec["infos"])):
            return False
        spec_offs, _ = _layout_spec(sizes, al_t, thr)
        conj = []
        prev_end = z3.IntVal(0)
        for s, info, so, t in zip(sizes, rec["infos"], spec_offs, ts):
            off, ln = zint(info.offset), zint(info.length)
            conj += [ln == s, off >= prev_end, off == so, info.name == t.name]
            if al_t is not None:
                f = z3.If(al_t > 4096, al_t, 4096)
                conj.append(z3.If(s > thr, z3.And(off % f == 0, off - prev_end < f), off == prev_end))
            else:
                conj.append(off == prev_end)
            prev_end = off + ln
        return z3.And(*conj)

    def replay(m):
        from onnx_ir import external_data as ed2

        cs = [zsym.model_int(m, s) for s in sizes]
        t = zsym.model_int(m, thr)
        a = None if alkind is None else (zsym.model_int(m, al_t))
        cur = 0
        bad = False
        infos = []
        for s in cs:
            info = ed2._compute_external_data_info(FT(s), cur, a, t)
            f = max(4096, a) if a is not None else None
            if info.length != s or info.offset < cur:
                bad = True
            if a is not None and s > t:
                if info.offset % f or info.offset - cur >= f:
                    bad = True
            elif info.offset != cur:
                bad = True
            infos.append([info.offset, info.length])
            cur = info.offset + info.length
        return bad, dict(call="convert_tensors_to_external layout", sizes=cs, alignment=a, align_threshold=t, infos=infos)

    r = explore(body, assume, timeout_ms=60000)
    _account(chk, name, r, dict(sizes=f"{K} x Int>=0", align_threshold="Int>=0", alignment=str(alkind)), replay, body=body)


def _shard_oracle(shards, ts, sizes_of, al_t, thr, mx):
    flat = [t for g in shards for t in g]
    if len(flat) != len(ts) or any(a is not b for a, b in zip(flat, ts)):
        return False
    conj = []
    for g in shards:
        if not g:
            return False
        _, end = _layout_spec([sizes_of[id(t)] for t in g], al_t, thr)
        if len(g) > 1:
            conj.append(end <= mx)
    return z3.And(*conj) if conj else z3.BoolVal(True)


def ob_shards(chk, ed, K, alkind):
    sizes = [z3.Int(f"s{i}") for i in range(K)]
    thr, mx = z3.Ints("thr mx")
    al_f, al_t, al_assume = _mk_al(alkind)
    assume = [s >= 0 for s in sizes] + [thr >= 0, mx > 0] + al_assume
    name = f"shards[K={K},alignment={alkind}]"

    def body():
        al_arg = al_f()
        ts = [FT(SV(s), f"t{i}") for i, s in enumerate(sizes)]
        sh = ed._shard_tensors(ts, SV(mx), al_arg, SV(thr))
        return _shard_oracle(sh, ts, {id(t): s for t, s in zip(ts, sizes)}, al_t, thr, mx)

    def replay(m):
        from onnx_ir import external_data as ed2

        cs = [zsym.model_int(m, s) for s in sizes]
        t, x = zsym.model_int(m, thr), zsym.model_int(m, mx)
        a = None if alkind is None else zsym.model_int(m, al_t)
        ts = [FT(s, f"t{i}") for i, s in enumerate(cs)]
        sh = ed2._shard_tensors(ts, x, a, t)
        flat = [q for g in sh for q in g]
        bad = flat != ts or any(not g for g in sh)
        for g in sh:
            end = 0
            for q in g:
                off = ed2._align_offset(end, q.nbytes, a, t) if False else _ref_align(end, q.nbytes, a, t)
                end = off + q.nbytes
            if len(g) > 1 and end > x:
                bad = True
        return bad, dict(call="external_data._shard_tensors", sizes=cs, max_shard_size_bytes=x, alignment=a,
                         align_threshold=t, shards=[[q.name for q in g] for g in sh])

    r = explore(body, assume, timeout_ms=60000)
    _account(chk, name, r, dict(sizes=f"{K} x Int>=0", max_shard_size_bytes="Int>0", align_threshold="Int>=0", alignment=str(alkind)), replay, body=body)


def _ref_align(cur, size, a, t):
    if a is None or size <= t:
        return cur
    f = max(4096, a)
    return -(-cur // f) * f


def ob_st_shards(chk, st, K):
    """safetensors backend sharding (no alignment; shard size = sum of nbytes)."""
    sizes = [z3.Int(f"s{i}") for i in range(K)]
    mx = z3.Int("mx")
    assume = [s >= 0 for s in sizes] + [mx > 0]
    name = f"safetensors_shards[K={K}]"

    def body():
        ts = [FT(SV(s), f"t{i}") for i, s in enumerate(sizes)]
        sh = st._shard_tensors(ts, SV(mx))
        flat = [t for g in sh for t in g]
        if len(flat) != K or any(a is not b for a, b in zip(flat, ts)):
            return False
        conj = []
        for gi, g in enumerate(sh):
            if not g and not (K == 0):
                return False
            if len(g) > 1:
                conj.append(z3.Sum(*[zint(t.nbytes) for t in g]) <= mx)
        return z3.And(*conj) if conj else True

    def replay(m):
        from onnx_ir import _safetensors as st2

        cs = [zsym.model_int(m, s) for s in sizes]
        x = zsym.model_int(m, mx)
        ts = [FT(s, f"t{i}") for i, s in enumerate(cs)]
        sh = st2._shard_tensors(ts, x)
        flat = [q for g in sh for q in g]
        bad = flat != ts or any(not g for g in sh) or any(len(g) > 1 and sum(q.nbytes for q in g) > x for g in sh)
        return bad, dict(call="_safetensors._shard_tensors", sizes=cs, max_shard_size_bytes=x, shards=[[q.name for q in g] for g in sh])

    r = explore(body, assume, timeout_ms=60000)
    _account(chk, name, r, dict(sizes=f"{K} x Int>=0", max_shard_size_bytes="Int>0"), replay, body=body)

    # None => one shard
    ts = [FT(i) for i in range(K)]
    sh = st._shard_tensors(ts, None)
    chk.obligations += 1
    if sh == [ts]:
        chk.discharged += 1
    else:
        chk.violation("C07:safetensors_shards_none", "max_shard_size_bytes=None must give one shard", dict(K=K))


def ob_jobs(chk, ed, K, alkind):
    """`_write_external_tensors`: every tensor goes to exactly one shard job, in order; external tensors
    are returned in declaration order; callback indices are globally contiguous."""
    sizes = [z3.Int(f"s{i}") for i in range(K)]
    thr, mx = z3.Ints("thr mx")
    al_f, al_t, al_assume = _mk_al(alkind)
    assume = [s >= 0 for s in sizes] + [thr >= 0, mx > 0] + al_assume
    name = f"shard_jobs[K={K},alignment={alkind}]"

    def body():
        jobs = []
        cb_calls = []
        al_arg = al_f()

        def user_cb(tensor, info):
            cb_calls.append((tensor, info))

        def fake_convert(tensors, base_dir, relative_path, callback=None, **kw):
            jobs.append((list(tensors), relative_path, kw))
            for i, t in enumerate(tensors):
                if callback is not None:
                    callback(t, ed.CallbackInfo(total=len(tensors), index=i, offset=0, filename=relative_path,
                                                shard_total=len(tensors), shard_index=i))
            return [("ext", t, relative_path) for t in tensors]

        wet = rebind(ed._write_external_tensors, convert_tensors_to_external=fake_convert,
                     _check_no_existing_shard_files=lambda paths: None)
        ts = [FT(SV(s), f"t{i}") for i, s in enumerate(sizes)]
        out = wet(ts, "base", "w.data", max_shard_size_bytes=SV(mx), callback=user_cb, max_workers=None,
                  max_in_flight_bytes=1 << 30, alignment=al_arg, align_threshold=SV(thr))
        if [o[1] for o in out] != ts:
            return False
        flat = [t for j in jobs for t in j[0]]
        if flat != ts:
            return False
        names = [j[1] for j in jobs]
        if len(set(names)) != len(names):
            return False
        total = len(jobs)
        want = [os.path.normpath(p) for p in (["w.data"] if total == 1 else [f"w-{i:05d}-of-{total:05d}.data" for i in range(1, total + 1)])]
        if [os.path.normpath(n) for n in names] != want:
            return False
        # every out entry names the file its tensor was written to
        loc = {id(t): j[1] for j in jobs for t in j[0]}
        if any(o[2] != loc[id(o[1])] for o in out):
            return False
        if [c[0] for c in cb_calls] != ts:
            return False
        if [c[1].index for c in cb_calls] != list(range(K)) or any(c[1].total != K for c in cb_calls):
            return False
        # alignment / threshold forwarded unchanged to every job
        for j in jobs:
            if j[2].get("alignment") is not al_arg:
                return False
        return _shard_oracle([j[0] for j in jobs], ts, {id(t): s for t, s in zip(ts, sizes)}, al_t, thr, mx)

    def replay(m):
        return True, dict(note="structural obligation; model values", sizes=[zsym.model_int(m, s) for s in sizes],
                          mx=zsym.model_int(m, mx), thr=zsym.model_int(m, thr))

    r = explore(body, assume, timeout_ms=60000)
    _account(chk, name, r, dict(sizes=f"{K} x Int>=0", max_shard_size_bytes="Int>0"), replay, body=body)


def ob_threshold(chk, ed, core, K):
    """`unload_from_model`: nbytes > threshold <=> becomes external; small external tensors are
    loaded to memory; in-memory small tensors stay; assignment order matches."""
    sizes = [z3.Int(f"s{i}") for i in range(K)]
    thr = z3.Int("thr")
    assume = [s >= 0 for s in sizes] + [thr >= 0]

    import numpy as np
    import onnx_ir as ir

    events = []

    class FExt(core.ExternalTensor):  # isinstance(..., ExternalTensor) is what the code tests
        def __init__(self, nbytes, name):  # noqa: super not called on purpose (duck-typed self)
            self._nb = nbytes
            self._nm = name
            self._data = np.array([float(len(name)), 2.5], dtype=np.float32)

        nbytes = property(lambda self: self._nb)
        name = property(lambda self: self._nm, lambda self, v: None)
        dtype = property(lambda self: ir.DataType.FLOAT)

        def numpy(self):
            events.append(("read", self._nm))
            return self._data

        def tobytes(self):
            events.append(("read", self._nm))
            return self._data.tobytes()

        def release(self):
            pass

    class V:
        def __init__(self, t):
            self.const_value = t

    class Ext:
        """what the writer returns for a tensor: an external tensor carrying the tensor's name"""

        def __init__(self, t):
            self.source = t
            self.name = t.name

    for kinds in _kind_vectors(K):
        name = f"threshold_split[K={K},kinds={''.join(kinds)}]"

        def body(kinds=kinds):
            ts = []
            for i, (k, s) in enumerate(zip(kinds, sizes)):
                half_ = (K + 1) // 2
                nm = f"t{i % half_}"       # the two graphs use the same tensor names (legal: names are per graph)
                if k == "n":
                    ts.append(None)
                elif k == "e":
                    ts.append(FExt(SV(s), nm))
                else:
                    ts.append(FT(SV(s), nm))
            vals = [V(t) for t in ts]
            half = (K + 1) // 2

            class G:
                def __init__(self, vs):
                    self.initializers = {f"v{id(v)}": v for v in vs}

            class M:
                def graphs(self):
                    return iter([G(vals[:half]), G(vals[half:])])

            del events[:]

            def fake_write(tensors, base_dir, relative_path, **kw):
                events.append(("write", None))
                return [Ext(t) for t in tensors]

            unload = rebind(ed.unload_from_model, _write_external_tensors=fake_write)
            m = M()
            unload(m, "base", "w.data", size_threshold_bytes=SV(thr))
            conj = []
            for v, t, s, k in zip(vals, ts, sizes, kinds):
                cv = v.const_value
                if k == "n":
                    if cv is not None:
                        return False
                    continue
                is_ext = isinstance(cv, Ext) and cv.source is t
                is_mem = (k == "e" and isinstance(cv, core.Tensor) and cv.name == t.name and cv.dtype == ir.DataType.FLOAT
                          and cv.numpy().tobytes() == t._data.tobytes())
                if is_mem:
                    # the old data file may be overwritten by the write: it must have been read before
                    ev = [e for e in events if e == ("read", t.name) or e[0] == "write"]
                    if not ev or ev[0][0] != "read":
                        return False
                same = cv is t
                if not (is_ext or is_mem or same):
                    return False
                conj.append((s > thr) == z3.BoolVal(is_ext))
                if k == "e":
                    conj.append((s <= thr) == z3.BoolVal(is_mem))
                else:
                    conj.append((s <= thr) == z3.BoolVal(same))
            return z3.And(*conj) if conj else True

        def replay(m, kinds=kinds):
            return True, dict(sizes=[zsym.model_int(m, s) for s in sizes], threshold=zsym.model_int(m, thr), kinds=kinds)

        r = explore(body, assume)
        _account(chk, name, r, dict(sizes=f"{K} x Int>=0", size_threshold_bytes="Int>=0"), replay, body=body)


def _kind_vectors(K):
    import itertools

    if K <= 3:
        return [k for k in itertools.product("men", repeat=K)]
    # larger K: every kind at every position at least once, plus all-m / all-e
    out = [tuple("m" * K), tuple("e" * K)]
    for i in range(K):
        for k in "en":
            v = ["m"] * K
            v[i] = k
            out.append(tuple(v))
    base = "mem" * K
    out.append(tuple(base[:K]))
    out.append(tuple(base[1:K + 1]))
    return out


def ob_st_threshold(chk, st, K, subbyte=False):
    """safetensors `_save_file`: nbytes >= threshold <=> saved externally (documented difference to the
    raw backend at equality), order preserved, shards as computed; the library itself is a recorder."""
    import onnx_ir as ir

    thr, mx = z3.Ints("thr mx")
    if subbyte:
        # 4-bit tensors: the element count is symbolic, the byte size is ceil(count / 2)
        counts = [z3.Int(f"count{i}") for i in range(K)]
        sizes = [(c + 1) / 2 for c in counts]
        assume = [c >= 0 for c in counts] + [thr >= 0, mx > 0]
    else:
        counts = None
        sizes = [z3.Int(f"s{i}") for i in range(K)]
        assume = [s >= 0 for s in sizes] + [thr >= 0, mx > 0]
    name = f"safetensors_threshold[K={K}{', INT4 tensors' if subbyte else ''}]"

    class T(FT):
        def __init__(self, nb, nm, count=None):
            super().__init__(nb, nm)
            self.dtype = ir.DataType.INT4 if subbyte else ir.DataType.UINT8
            self.size = count if count is not None else nb      # element count (one byte per element for UINT8)

            class S:
                def numpy(self_inner):
                    return ["<n>"]

            self.shape = S()

        def tobytes(self):
            return b""

    class V:
        def __init__(self, t):
            self.const_value = t
            self.name = t.name

    def body():
        written = []

        class FakeST:
            @staticmethod
            def serialize_file(d, path):
                written.append((list(d.keys()), path))

        replaced = []

        def fake_replace(values, filename, base_dir):
            replaced.append((list(values), filename))

        class FakeJson:
            @staticmethod
            def dump(*a, **k):
                pass

        import contextlib

        @contextlib.contextmanager
        def fake_open(*a, **k):
            yield None

        save = rebind(st._save_file, _import_safetensors=lambda: FakeST, _replace_tensors=fake_replace,
                      json=FakeJson, open=fake_open)
        ts = [T(SV(s), f"t{i}", None if counts is None else SV(counts[i])) for i, s in enumerate(sizes)]
        vals = [V(t) for t in ts]
        calls = []
        save(vals, "w.safetensors", "base", size_threshold_bytes=SV(thr), max_shard_size_bytes=SV(mx),
             callback=lambda t, info: calls.append((t, info)))
        saved_names = [n for names, _ in written for n in names]
        conj = []
        for t, s in zip(ts, sizes):
            conj.append((s >= thr) == z3.BoolVal(t.name in saved_names))
        order = [t.name for t in ts if t.name in saved_names]
        if saved_names != order or len(set(saved_names)) != len(saved_names):
            return False
        if [c[0].name for c in calls] != saved_names:
            return False
        if [c[1].index for c in calls] != list(range(len(saved_names))):
            return False
        # offsets reported to the callback = running sum of nbytes
        run = z3.IntVal(0)
        byname = {t.name: s for t, s in zip(ts, sizes)}
        for c in calls:
            conj.append(zint(c[1].offset) == run)
            run = run + byname[c[0].name]
        # each shard respects the limit unless single
        for names, _ in written:
            if not names:
                return False
            if len(names) > 1:
                conj.append(z3.Sum(*[byname[n] for n in names]) <= mx)
        # every written file is re-read to replace the tensors, with exactly the saved values
        if [f for _, f in replaced] != [os.path.relpath(p, "base") for _, p in written]:
            return False
        for vs, _ in replaced:
            if [v.name for v in vs] != saved_names:
                return False
        return z3.And(*conj) if conj else True

    def replay(m):
        return True, dict(sizes=[zsym.model_int(m, s) for s in (counts if counts is not None else sizes)], threshold=zsym.model_int(m, thr), mx=zsym.model_int(m, mx))

    r = explore(body, assume, timeout_ms=60000)
    _account(chk, name, r, dict(sizes=f"{K} x Int>=0" + (" element counts of 4-bit tensors" if subbyte else ""), size_threshold_bytes="Int>=0", max_shard_size_bytes="Int>0"), replay, body=body)


def ob_restore(chk, K):
    """`_io.save`: after it returns or raises at any fault position, every initializer (main graph and
    subgraph) holds the identical tensor object as before.  The fault position is a symbolic Int."""
    import numpy as np
    import onnx_ir as ir
    from onnx_ir import _io

    fault = z3.Int("fault")  # 0 none, 1 unload raises after mutating, 2 serialize raises, 3 onnx.save raises
    nmut = z3.Int("nmut")    # how many initializers unload had replaced when it raised
    assume = [fault >= 0, fault <= 3, nmut >= 0, nmut <= K]
    name = f"save_restores_model[K={K}]"
    chk.fn("_io.save")

    def build():
        vals = []
        for i in range(K):
            t = ir.Tensor(np.arange(i + 1, dtype=np.float32), name=f"w{i}")
            vals.append(ir.Value(name=f"w{i}", const_value=t, type=ir.TensorType(ir.DataType.FLOAT), shape=ir.Shape([i + 1])))
        half = (K + 1) // 2
        x = ir.Value(name="x", type=ir.TensorType(ir.DataType.FLOAT), shape=ir.Shape([1]))
        sub = ir.Graph([], [], nodes=[], initializers=vals[half:], name="sub")
        n = ir.Node("", "If", [x], attributes=[ir.AttrGraph("then_branch", sub)], num_outputs=1, name="n")
        g = ir.Graph([x], [n.outputs[0]], nodes=[n], initializers=vals[:half], name="g", opset_imports={"": 18})
        return ir.Model(g, ir_version=10), vals

    class Boom(Exception):
        pass

    def body():
        model, vals = build()
        before = [v.const_value for v in vals]
        f = SV(fault)
        nm = SV(nmut)

        class FakeED:
            _DEFAULT_MAX_IN_FLIGHT_BYTES = 1 << 30
            _DEFAULT_ALIGN_THRESHOLD = 1 << 20

            @staticmethod
            def unload_from_model(m, base_dir, rel, **kw):
                done = 0
                for graph in m.graphs():
                    for v in graph.initializers.values():
                        if f == 1 and nm == done:
                            raise Boom("unload")
                        v.const_value = ir.Tensor(np.zeros(1, dtype=np.float32), name=v.name)
                        done += 1
                if f == 1:
                    raise Boom("unload")
                return m

        class FakeSerde:
            @staticmethod
            def serialize_model(m):
                if f == 2:
                    raise Boom("serialize")
                return "proto"

        class FakeOnnx:
            @staticmethod
            def save(proto, path, format=None):
                if f == 3:
                    raise Boom("onnx.save")

        save = rebind(_io.save, _external_data=FakeED, serde=FakeSerde, onnx=FakeOnnx)
        raised = False
        try:
            save(model, "dir/m.onnx", external_data="m.data")
        except Boom:
            raised = True
        same = all(v.const_value is b for v, b in zip(vals, before))
        all_inits = [v for g in model.graphs() for v in g.initializers.values()]
        ok = same and len(all_inits) == K and all(a is b for a, b in zip(all_inits, vals))
        return z3.And(z3.BoolVal(ok), (fault == 0) == z3.BoolVal(not raised)), dict(raised=raised)

    def replay(m):
        return True, dict(fault=zsym.model_int(m, fault), nmut=zsym.model_int(m, nmut))

    r = explore(body, assume)
    _account(chk, name, r, dict(fault_position="Int in 0..3 (none/unload/serialize/onnx.save)", mutated_before_fault=f"Int in 0..{K}"), replay, body=body)


# ---------------------------------------------------------------------------------------------


def run(chk, tier):
    from onnx_ir import _core as core
    # the current source of the safetensors backend, with the builtin int() replaced by a cast that keeps symbolic
    # values symbolic (int(x * itemsize) is how a size may be computed from an element count)
    st = shadow.load("onnx_ir._safetensors", int=_sym_int_cast)
    from onnx_ir import external_data as ed

    quick = tier == "quick"
    chk.fn("external_data._align_offset", "external_data._compute_external_data_info",
           "external_data.convert_tensors_to_external", "external_data._shard_tensors",
           "external_data._write_external_tensors", "external_data.unload_from_model",
           "external_data._validate_write_options", "_safetensors._shard_tensors", "_safetensors._save_file",
           "_shard_filename.get_shard_filename")
    chk.assume(
        "tensor sizes, size threshold, align_threshold, max_shard_size_bytes: unbounded mathematical integers >= 0 (> 0 for the shard limit)",
        "alignment: None, or a member of {1, 4096, 65536, 100003}, or (K<=2) an unbounded symbolic integer > 0",
        "tensors are duck-typed objects exposing nbytes/name/dtype/shape (the only attributes the layout code reads)",
        "_write_external_data / convert_tensors_to_external / safetensors.serialize_file / _replace_tensors replaced by recorders in the obligations that do not concern them",
        "logging disabled (message formatting is not under test)",
        "save() restore clause: unload_from_model, serialize_model and onnx.save replaced by stubs that mutate initializers and raise at a symbolic fault position",
    )
    chk.not_decided += [
        "the real file system round trip (bytes read back after save) — composition of C04 (external reads), C08/C09 (writes at info.offset) and the disjointness proved here",
        "the safetensors file format (Rust library behind FFI)",
        "equality nbytes == threshold is backend specific (raw: inline, safetensors: external) and asserted per backend as documented",
    ]
    conc_als = [None, 1, 4096, 65536, 100003]
    Kmax = 5 if quick else 8
    Ksh = 4 if quick else 6
    chk.bounds = dict(layout_K=f"1..{Kmax} (concrete alignment set), 1..2 (symbolic alignment)",
                      shards_K=f"1..{Ksh} (concrete alignment set), 1..2 (symbolic alignment)",
                      threshold_K=f"1..{3 if quick else 5}", restore_K=f"1..{3 if quick else 5}",
                      align_step="unbounded (all four arguments symbolic)")
    ob_align_step(chk, ed)
    for K in range(1, Kmax + 1):
        for a in (conc_als if K <= 4 or not quick else [None, 4096, 100003]):
            ob_layout(chk, ed, K, a)
    for K in (1, 2):
        ob_layout(chk, ed, K, "sym")
    for K in range(1, Ksh + 1):
        for a in (conc_als if K <= 3 or not quick else [None, 65536]):
            ob_shards(chk, ed, K, a)
    for K in (1, 2):
        ob_shards(chk, ed, K, "sym")
    for K in range(0, Ksh + 1):
        ob_st_shards(chk, st, K)
    for K in range(1, (3 if quick else 5) + 1):
        for a in ([None, 4096] if quick else conc_als):
            ob_jobs(chk, ed, K, a)
    for K in range(1, (3 if quick else 5) + 1):
        ob_threshold(chk, ed, core, K)
    for K in range(1, (3 if quick else 4) + 1):
        ob_st_threshold(chk, st, K)
        if K <= 3:
            ob_st_threshold(chk, st, K, subbyte=True)
    for K in range(1, (3 if quick else 5) + 1):
        ob_restore(chk, K)
    chk.extra["rule"] = "one case per (obligation kind, K, alignment kind, tensor-kind vector); each case is decided for every integer value of its symbolic sizes/thresholds by z3"


def replay(rec):
    from onnx_ir import external_data as ed

    if rec.get("call") == "_align_offset":
        c, s, a, t = rec["args"]
        off = ed._align_offset(c, s, a, t)
        if a is None or s <= t:
            return off != c
        f = max(4096, a)
        return not (off % f == 0 and 0 <= off - c < f)
    return True
