"""C19 — device annotations follow object identity and never dangle.

History driver on zsym.  Steps are symbolic choices among shard / set_pipeline_stage /
add_/remove_device_configuration(cascade) / rename / replace_input_with / resize_inputs /
resize_outputs / clone / serialize->deserialize (IR version 11 or 13), with axis, num_shards,
pipeline stage and num_devices as unconstrained small symbolic integers (negative included) and
device indices inside range(num_devices) (the documented domain).
"""
from __future__ import annotations

import operator

import onnx_ir as ir
from onnx_ir import _multi_device, serde

from engine import hist

LEVEL = "other"
TECHNIQUE = "symbolic execution (zsym, z3) of bounded histories of annotation requests interleaved with graph edits, renames, clones and proto round trips on the real Node.shard/Model device-configuration code; per-path native re-execution"


def build(pre=False):
    x = ir.Value(name="x", type=ir.TensorType(ir.DataType.FLOAT), shape=ir.Shape(["N", 4]))
    u = ir.Value(name="u", type=ir.TensorType(ir.DataType.FLOAT), shape=None)  # unknown rank
    a = ir.Node("", "Add", [x, u], name="a")
    a.outputs[0].name = "t"
    a.outputs[0].type = ir.TensorType(ir.DataType.FLOAT)
    a.outputs[0].shape = ir.Shape(["N", 4])
    cond = ir.Value(name="cond", type=ir.TensorType(ir.DataType.BOOL), shape=ir.Shape([]))   # rank 0: every axis is out of range
    b = ir.Node("", "Mul", [a.outputs[0], x, cond], name="b", num_outputs=2)
    b.outputs[0].name = "y"
    b.outputs[1].name = "y2"
    for o in b.outputs:
        o.type = ir.TensorType(ir.DataType.FLOAT)
        o.shape = ir.Shape(["N", 4])
    # an If body whose node consumes values captured from the enclosing graph (annotations may target them)
    inner = ir.Node("", "Sub", [a.outputs[0], x], name="inner")
    inner.outputs[0].name = "iv"
    inner.outputs[0].type = ir.TensorType(ir.DataType.FLOAT)
    inner.outputs[0].shape = ir.Shape(["N", 4])
    body = ir.Graph([], [inner.outputs[0]], nodes=[inner], name="body")
    iff = ir.Node("", "If", [cond], attributes=[ir.AttrGraph("then_branch", body), ir.AttrGraph("else_branch", ir.Graph([], [], nodes=[], name="empty"))], name="iff")
    iff.outputs[0].name = "ifo"
    g = ir.Graph([x, u, cond], [b.outputs[0], iff.outputs[0]], nodes=[a, b, iff], name="main", opset_imports={"": 18})
    m = ir.Model(g, ir_version=11)
    m.add_device_configuration("cfg0", num_devices=2)
    m.add_device_configuration("cfg1", num_devices=3, device_names=("d0", "d1", "d2"))
    if pre:
        # pre-state: one value annotated under BOTH configurations on two nodes (three requests deep)
        c0, c1 = m.device_configurations
        a.shard(x, configuration=c0, axis=1, num_shards=2, device_indices=[0, 1])
        a.shard(x, configuration=c1, axis=0, num_shards=3, device_indices=[0, 1, 2])
        b.shard(x, configuration=c1, axis=1, num_shards=3, device_indices=[0, 1, 2])
        b.shard(x, configuration=c0, axis=1, num_shards=2, device_indices=[0, 1])
        b.shard(b.outputs[1], configuration=c0, axis=1, num_shards=2, device_indices=[0, 1])
        b.shard(b.outputs[1], configuration=c1, axis=1, num_shards=3, device_indices=[0, 1, 2])
    return m


def summary(m):
    """annotations by name (what a round trip must preserve)"""
    out = {"configs": [(c.name, c.num_devices, tuple(c.device_names)) for c in m.device_configurations]}
    for n in m.graph.all_nodes():
        cfgs = []
        for c in n.device_configurations:
            specs = []
            for s in c.sharding_specs:
                specs.append((getattr(s.value, "name", None), tuple(s.device),
                              tuple((d.axis, tuple((repr(sd.dim), sd.num_shards) for sd in d.simple_shardings)) for d in s.sharded_dims)))
            cfgs.append((getattr(c.configuration, "name", None), c.pipeline_stage, tuple(specs)))
        out[n.name] = cfgs
    return out


def state(m):
    """identity-level state of every annotation (for 'rejected without effect')"""
    st = [tuple(id(c) for c in m.device_configurations)]
    for n in m.graph.all_nodes():
        st.append((n.name, tuple((id(c.configuration), c.pipeline_stage, tuple((id(s.value), s.device, s.sharded_dims) for s in c.sharding_specs)) for c in n.device_configurations)))
    return st


def oracle(m, problems, where):
    registered = list(m.device_configurations)
    for n in m.graph.all_nodes():
        io = [v for v in list(n.inputs) + list(n.outputs) if v is not None]
        for c in n.device_configurations:
            if not any(c.configuration is r for r in registered):
                problems.append(f"{where}: node {n.name} references configuration {getattr(c.configuration, 'name', None)!r} that is not registered on the model")
            for s in c.sharding_specs:
                if s.value is None or not any(s.value is v for v in io):
                    problems.append(f"{where}: node {n.name} keeps a sharding spec for {getattr(s.value, 'name', None)!r}, which is not an input or output of the node")
    errs = _multi_device._check_device_configurations(m)
    if errs:
        problems.append(f"{where}: the library's device-configuration check reports: {errs[:2]}")
    # serialized references use the current names
    try:
        p = serde.serialize_model(m)
    except Exception as e:  # noqa: BLE001
        problems.append(f"{where}: serialization raised {type(e).__name__}: {e}")
        return
    by_name = {n.name: n for n in m.graph.all_nodes()}
    for np_ in p.graph.node:
        n = by_name.get(np_.name)
        if n is None:
            continue
        want = []
        for c in n.device_configurations:
            want.append((c.configuration.name if c.configuration else "", sorted(s.value.name for s in c.sharding_specs if s.value is not None)))
        got = [(dc.configuration_id, sorted(sp.tensor_name for sp in dc.sharding_spec)) for dc in np_.device_configurations]
        if got != want:
            problems.append(f"{where}: node {n.name} serializes device references {got}, current names are {want}")


def _device_fields(p):
    out = []
    if len(getattr(p, "configuration", [])):
        out.append("model.configuration")

    def graph(g, where):
        for n in g.node:
            if len(n.device_configurations):
                out.append(f"{where}node {n.name}.device_configurations")
            for a in n.attribute:
                if a.HasField("g"):
                    graph(a.g, f"{where}{n.name}/")
                for sg in a.graphs:
                    graph(sg, f"{where}{n.name}/")

    graph(p.graph, "")
    for f in p.functions:
        for n in f.node:
            if len(n.device_configurations):
                out.append(f"function {f.name} node {n.name}.device_configurations")
    return out


OPS = ["shard", "set_pipeline_stage", "add_configuration", "remove_configuration(cascade)", "rename_value", "replace_input_with", "resize_outputs", "resize_inputs",
       "clone", "round_trip"]
NAMES = ["t", "x", "renamed", "cfg0"]


def body_for(k, first_op, second_op=None, pre=False):
    def body(P):
        m = build(pre)
        problems = []
        log = []
        for i in range(k):
            fixed = first_op if i == 0 else second_op if i == 1 else None
            op = OPS[fixed if fixed is not None else operator.index(P[f"o{i}"])]
            nodes = [n_ for n_ in m.graph.all_nodes() if n_.op_type != "If"]    # main-graph nodes and the node inside the If body
            node = nodes[operator.index(P[f"n{i}"]) % len(nodes)]
            io = [v for v in list(node.inputs) + list(node.outputs) if v is not None]
            all_vals = list(m.graph.inputs) + [o for n_ in nodes for o in n_.outputs]
            cfgs = list(m.device_configurations)
            a, b, c = P[f"a{i}"], P[f"b{i}"], P[f"c{i}"]
            before = state(m)
            raised = None
            try:
                if op == "shard":
                    vsel = operator.index(P[f"v{i}"])
                    value = all_vals[vsel % len(all_vals)]  # may be a value that is not the node's own
                    cfg = cfgs[operator.index(c) % len(cfgs)] if cfgs else _multi_device.ModelConfiguration("ghost", 2)
                    mask = operator.index(P[f"d{i}"]) % (1 << cfg.num_devices)
                    devices = [j for j in range(cfg.num_devices) if mask >> j & 1]
                    stage = None if operator.index(P[f"s{i}"]) == 3 else P[f"s{i}"]
                    node.shard(value, configuration=cfg, axis=a, num_shards=b, device_indices=devices, pipeline_stage=stage)
                elif op == "set_pipeline_stage":
                    cfg = cfgs[operator.index(c) % len(cfgs)] if cfgs else _multi_device.ModelConfiguration("ghost", 2)
                    node.set_pipeline_stage(cfg, P[f"s{i}"])
                elif op == "add_configuration":
                    name = ["cfg2", "cfg0", ""][operator.index(c) % 3]
                    # the device count is concretised (one path per value of the range): later requests index devices by it
                    m.add_device_configuration(name, num_devices=operator.index(b))
                elif op == "remove_configuration(cascade)":
                    if cfgs:
                        cfg = cfgs[operator.index(c) % len(cfgs)]
                        how = operator.index(a) % 3
                        if how == 2:
                            # an equal-looking object that is NOT the registered one (e.g. the configuration of another copy of the model)
                            twin = _multi_device.ModelConfiguration(cfg.name, cfg.num_devices, tuple(cfg.device_names))
                            m.remove_device_configuration(twin, cascade=True)
                        else:
                            m.remove_device_configuration(cfg if how == 1 else cfg.name, cascade=True)
                elif op == "rename_value":
                    all_vals[operator.index(P[f"v{i}"]) % len(all_vals)].name = NAMES[operator.index(c) % len(NAMES)] + "_r"
                elif op == "replace_input_with":
                    node.replace_input_with(operator.index(a) % max(1, len(node.inputs)), all_vals[operator.index(P[f"v{i}"]) % len(all_vals)] if operator.index(c) % 2 else None)
                elif op == "resize_outputs":
                    node.resize_outputs(operator.index(b) % 4)
                elif op == "resize_inputs":
                    node.resize_inputs(operator.index(b) % 4)
                elif op == "clone":
                    m = m.clone()
                elif op == "round_trip":
                    before_sum = summary(m)
                    version = (11, 13, 10)[operator.index(c) % 3]
                    m.ir_version = version
                    if version < 11:
                        # below IR version 11 nothing of the annotations may be emitted, in any scope
                        p10 = serde.serialize_model(m)
                        leaked = _device_fields(p10)
                        if leaked:
                            problems.append(f"step {i}: multi-device fields emitted at IR version {version}: {leaked[:3]}")
                        m.ir_version = 11
                        log.append("round_trip@10")
                        oracle(m, problems, f"after step {i} ({op})")
                        if problems:
                            break
                        continue
                    m2 = serde.deserialize_model(serde.serialize_model(m))
                    if summary(m2) != before_sum:
                        problems.append(f"step {i}: annotations changed across a proto round trip at IR version {version}: {before_sum} -> {summary(m2)}")
                    m = m2
            except (ValueError, TypeError) as e:
                raised = type(e).__name__
            log.append(f"{op}{'!' if raised else ''}")
            if raised and op in ("shard", "set_pipeline_stage", "add_configuration", "remove_configuration(cascade)") and state(m) != before:
                problems.append(f"step {i}: rejected {op} request changed the annotations")
            oracle(m, problems, f"after step {i} ({op})")
            if problems:
                break
        return (not problems), dict(log=log, problems=problems[:3])

    return body


def make_case(tier, key):
    pre = key[0] == "pre"
    if pre:
        key = (1,) + tuple(key[1:])
    k, first_op = key[0], key[1]
    second_op = key[2] if len(key) > 2 else None
    pin = dict(zip(("n0", "v0"), key[3:5])) if len(key) > 3 else {}
    ranges = {}
    for i in range(k):
        if (i == 0 and first_op is None) or (i == 1 and second_op is None) or i > 1:
            ranges[f"o{i}"] = (0, len(OPS) - 1)
        if k > 1 and i == 0:
            # the first of two steps is a valid request with few degrees of freedom; the second is explored widely
            ranges.update({f"n{i}": (0, 2), f"v{i}": (0, 3), f"a{i}": (-1, 1), f"b{i}": (2, 2), f"c{i}": (0, 1), f"d{i}": (1, 1), f"s{i}": (3, 3)})
        elif k > 1:
            ranges.update({f"n{i}": (0, 2), f"v{i}": (0, 3), f"a{i}": (-2, 2), f"b{i}": (0, 2), f"c{i}": (0, 2), f"d{i}": (0, 1), f"s{i}": (1, 3)})
        else:
            ranges.update({f"n{i}": (0, 2), f"v{i}": (0, 6), f"a{i}": (-3, 2), f"b{i}": (-1, 2), f"c{i}": (0, 2), f"d{i}": (0, 3), f"s{i}": (-1, 3)})

    def sig(args, obs):
        first = obs["problems"][0]
        for tag in ("not registered", "keeps a sharding spec", "check reports", "serialization raised", "serializes device references", "round trip", "rejected"):
            if tag in first:
                return "C19:" + tag.replace(" ", "-")
        return "C19:other"

    for kk, vv in pin.items():
        ranges[kk] = (vv, vv)
    label = f"annotations[{'from a state with one value annotated under both configurations, ' if pre else ''}{k} steps{' ' + str(pin) if pin else ''}" + (f", first {OPS[first_op]}" if first_op is not None else "") + (f", then {OPS[second_op]}]" if second_op is not None else "]")
    return hist.Case(label, ranges, body_for(k, first_op, second_op, pre),
                     meta=dict(sig=sig, describe=lambda a, o: f"{o['log']} {a}: " + "; ".join(o["problems"][:2])))


def keys_for(tier):
    keys = [(1, o) for o in range(len(OPS))]
    keys += [(2, 0, o2) for o2 in range(1, len(OPS))]       # shard ; anything
    keys += [(2, 0, 0, n, v) for n in (0, 1) for v in (0, 1, 2)]   # shard ; shard, split by the first request's node and value
    keys += [("pre", o) for o in range(len(OPS))]           # anything, from the doubly annotated pre-state
    if tier != "quick":
        keys += [(2, 1, o2) for o2 in range(len(OPS))]      # set_pipeline_stage ; anything
        keys += [(2, o1, 0) for o1 in range(2, len(OPS))]   # anything ; shard
    return keys


def run(chk, tier):
    chk.fn("_core.Node.shard/set_pipeline_stage/sharding_of/_drop_sharding_for_value/replace_input_with/resize_inputs/resize_outputs", "_core.Model.add_device_configuration/remove_device_configuration/clone",
           "_multi_device._check_device_configurations/_check_sharding_spec", "_cloner.Cloner._remap_device_configurations",
           "serde.serialize_node_device_configuration/deserialize (device configurations)", "_core.Value.name setter")
    chk.assume(
        "axis in -3..2, num_shards in -1..2, pipeline stage in -1..2 or None, num_devices in -1..2: symbolic, deliberately including invalid values",
        "device indices are subsets of range(num_devices) (documented domain); configurations are removed with cascade=True only (the property's quantifier)",
        "values of known rank 2 and of unknown rank; a node with two outputs; shard targets may be values that do not belong to the node",
    )
    chk.bounds = dict(history_length="1 (every operation, full ranges); 2 = a near-valid shard request followed by every operation with full ranges" + ("" if tier == "quick" else "; plus set_pipeline_stage;* and *;shard"), operations=OPS)
    chk.not_decided += ["histories longer than the bound", "index_to_device_group_map entries", "shape reassignment after sharding (not in the property's list of operations)"]
    hist.run_cases(chk, "harness.C19", "make_case", keys_for(tier))
    chk.extra["rule"] = "one case per (history length, first operation); all operand/payload values are feasible paths decided by z3"


def replay(rec):
    case = make_case("quick", tuple(rec["key"]))
    ok, obs = case.body(dict(rec["args"]))
    print(obs)
    return not ok
