"""C02 — ONNX proto -> IR -> proto is lossless for every supported proto.

History driver on zsym over protos built DIRECTLY with protobuf (engine.protogen: one feature flag per
construct the property names - alias domain, value-info order/unreferenced entries, trailing unnamed
outputs, explicitly set defaults, metadata on every carrier, type and dimension denotations, nested
optional(sequence(tensor)) / sparse types, quantization annotations, device configurations, functions
with overloads / attribute parameters / reference attributes, nested subgraphs capturing outer values
(GRAPH and GRAPHS attributes), every tensor storage field and element type, every attribute kind).
Symbolic per case: which second feature is combined with the case's feature, whether all remaining
features are on, and the IR version (3..13: the gates at 10 and 11 are crossed by the solver).

Oracle: norm(to_proto(from_proto(p))) == norm(p), where norm (engine.protonorm) implements exactly the
normalisations the property documents and nothing else; on a difference the first differing field is
named.  The per-message pairs deserialize_tensor/serialize_tensor, attribute, value-info, type, graph
and function are checked on every sub-message of the same protos.
"""
from __future__ import annotations

import operator

from engine import hist, models, protogen, protonorm

LEVEL = "other"
TECHNIQUE = ("symbolic execution (zsym/z3) of deserialize-then-serialize over feature-switched protos built directly with protobuf: feature combination and IR version symbolic; "
             "oracle: field-by-field equality of the normal forms (only the documented normalisations); per-path native re-execution")

F = protogen.FEATURES


def roundtrip_checks(p):
    """list of differences for one ModelProto"""
    import onnx

    import onnx_ir as ir
    from onnx_ir import serde

    problems = []
    try:
        m = ir.from_proto(p)
        q = ir.to_proto(m)
    except Exception as e:  # noqa: BLE001
        return [f"model: round trip raised {type(e).__name__}: {str(e)[:160]}"]
    had = protonorm.initializer_value_info(p)
    a, b = protonorm.norm(p, had), protonorm.norm(q, had)
    if a != b:
        problems.append("model: " + str(protonorm.first_difference(a, b, "model")))

    # per-message pairs
    def tensors(g):
        yield from g.initializer
        for n in g.node:
            for at in n.attribute:
                if at.type == onnx.AttributeProto.TENSOR:
                    yield at.t
                elif at.type == onnx.AttributeProto.TENSORS:
                    yield from at.tensors
                elif at.type == onnx.AttributeProto.GRAPH:
                    yield from tensors(at.g)
                elif at.type == onnx.AttributeProto.GRAPHS:
                    for s in at.graphs:
                        yield from tensors(s)

    for t in tensors(p.graph):
        try:
            t2 = serde.serialize_tensor(serde.deserialize_tensor(t))
        except Exception as e:  # noqa: BLE001
            problems.append(f"tensor {t.name}: raised {type(e).__name__}: {str(e)[:100]}")
            continue
        x, y = onnx.TensorProto.FromString(t.SerializeToString()), t2
        protonorm._clear_defaults(x)
        protonorm._clear_defaults(y)
        protonorm._sort_meta(x.metadata_props)
        protonorm._sort_meta(y.metadata_props)
        if x != y:
            problems.append(f"tensor {t.name}: " + str(protonorm.first_difference(x, y, "tensor")))
    for n in p.graph.node:
        for at in n.attribute:
            if at.type in (onnx.AttributeProto.GRAPH, onnx.AttributeProto.GRAPHS):
                continue
            try:
                a2 = serde.serialize_attribute(serde.deserialize_attribute(at))
            except Exception as e:  # noqa: BLE001
                problems.append(f"attribute {at.name}: raised {type(e).__name__}: {str(e)[:100]}")
                continue
            x, y = onnx.AttributeProto.FromString(at.SerializeToString()), a2
            protonorm._clear_defaults(x)
            protonorm._clear_defaults(y)
            # `type` is required information; _clear_defaults never clears a non-default enum
            if x != y:
                problems.append(f"attribute {at.name}: " + str(protonorm.first_difference(x, y, "attribute")))
    for vi in list(p.graph.input) + list(p.graph.output):
        try:
            v = serde.deserialize_value_info_proto(vi, None)
            vi2 = serde.serialize_value(v)
        except Exception as e:  # noqa: BLE001
            problems.append(f"value-info {vi.name}: raised {type(e).__name__}: {str(e)[:100]}")
            continue
        x, y = onnx.ValueInfoProto.FromString(vi.SerializeToString()), vi2
        protonorm._clear_defaults(x)
        protonorm._clear_defaults(y)
        protonorm._sort_meta(x.metadata_props)
        protonorm._sort_meta(y.metadata_props)
        if x != y:
            problems.append(f"value-info {vi.name}: " + str(protonorm.first_difference(x, y, "value_info")))
    for fn in p.functions:
        try:
            f2 = serde.serialize_function(serde.deserialize_function(fn))
        except Exception as e:  # noqa: BLE001
            problems.append(f"function {fn.name}: raised {type(e).__name__}: {str(e)[:100]}")
            continue
        wrap = lambda f_: protonorm.norm(onnx.ModelProto(functions=[f_], graph=onnx.GraphProto(name="g")))  # noqa: E731
        x, y = wrap(fn), wrap(f2)
        if x != y:
            problems.append(f"function {fn.name}/{fn.overload}: " + str(protonorm.first_difference(x, y, "function")))
    return problems


def make_case(tier, key):
    kind = key[0]
    if kind == "feature":
        fi = key[1]
        ranges = dict(second=(-1, len(F) - 1), rest=(0, 1), irv=(3, 13))
        if tier == "thorough":
            ranges["third"] = (-1, len(F) - 1)     # triples of features (and all-but-two)

        def body(P):
            second = operator.index(P["second"])
            third = operator.index(P["third"]) if "third" in P else -1
            rest = operator.index(P["rest"])
            irv = operator.index(P["irv"])
            # rest = 0: the case's feature (+ the second one);  rest = 1: every feature except the second one
            flags = {k: bool(rest) for k in F}
            flags[F[fi]] = True
            if second >= 0 and second != fi:
                flags[F[second]] = not rest
            if third >= 0 and third != fi:
                flags[F[third]] = not rest
            p = protogen.build(flags, ir_version=irv)
            probs = roundtrip_checks(p)
            return (not probs), dict(problems=probs, features=sorted(k for k, v in flags.items() if v), irv=irv)

        name = f"feature[{F[fi]}]"
    elif kind == "testdata":
        path = key[1]

        def body(P):
            import onnx
            from google.protobuf import text_format

            p = onnx.ModelProto()
            text_format.Parse(open(path).read(), p)
            probs = roundtrip_checks(p)
            return (not probs), dict(problems=probs, source=path)

        ranges = dict(dummy=(0, 0))
        name = f"testdata[{path.split('/')[-1]}]"
    else:
        src = key[1]

        def body(P):
            import onnx_ir as ir

            irv = operator.index(P["irv"])
            m = models.build(src)
            m.ir_version = irv
            p = ir.to_proto(m)
            probs = roundtrip_checks(p)
            return (not probs), dict(problems=probs, source=src, irv=irv)

        ranges = dict(irv=(3, 13))
        name = f"family[{src}]"

    def sig(args, obs):
        first = obs["problems"][0] if obs["problems"] else "?"
        return "C02:" + first.split(" vs ")[0].split(": ")[0][:40] + ":" + (first.split(": ")[1].split(":")[0][:70] if ": " in first else "")

    def describe(args, obs):
        return f"{name} {args} features {obs.get('features')}: " + "; ".join(obs["problems"][:3])

    return hist.Case(name, ranges, body, meta=dict(sig=sig, describe=describe))


def keys_for(tier):
    keys = [("feature", i) for i in range(len(F))]
    keys += [("family", s) for s in models.MODELS]
    if tier == "thorough":
        import glob

        keys += [("testdata", f) for f in sorted(glob.glob("/repo/testdata/e2e_models/*/*.textproto"))]
    return keys


def run(chk, tier):
    chk.fn("serde.deserialize_model / serialize_model_into", "serde.deserialize_graph / serialize_graph_into", "serde.deserialize_function / serialize_function_into",
           "serde.deserialize_node / serialize_node_into", "serde.deserialize_tensor / serialize_tensor_into (TensorProtoTensor)", "serde.deserialize_attribute / serialize_attribute_into",
           "serde.deserialize_value_info_proto / serialize_value_into", "serde.deserialize_type_proto_for_type/_for_shape / serialize_type_into / serialize_shape_into / serialize_dimension_into",
           "serde._deserialize/_serialize metadata props, opset imports, quantization annotations, device configurations", "_core.TensorType/SparseTensorType/SequenceType/OptionalType/Shape/SymbolicDim")
    chk.assume(
        "norm() = exactly the documented normalisations: alias domain, order of opset-import/value-info/metadata entries, value-info for initializers, unreferenced value-info, trailing unnamed outputs, default-valued scalars",
        "protos are built directly with protobuf / onnx.helper, not through the IR; scalars reach protobuf as concrete values of the path (C boundary)",
        "feature combination (case feature x symbolic second feature x 'all remaining features on') and IR version 3..13 are symbolic integers",
        "every explored path is re-executed natively with the path's witness and must give the same observation",
    )
    chk.bounds = dict(features=F, combinations="each feature alone, each ordered pair, each feature with all others, all-but-one; IR versions 3..13" + ("; triples and all-but-two; the repository's e2e textproto models" if tier == "thorough" else ""), family_sources=list(models.MODELS))
    chk.not_decided += ["sparse tensors and sparse initializers (excluded by the property)", "wire-format level behaviour, textproto/JSON", "map types"]
    import logging

    logging.disable(logging.CRITICAL)
    models.INFER_SHAPES = False
    hist.run_cases(chk, "harness.C02", "make_case", keys_for(tier))
    chk.extra["rule"] = "one case per feature (second feature, rest flag, IR version symbolic) and per family model (IR version symbolic)"


def replay(rec):
    models.INFER_SHAPES = False
    case = make_case("quick", tuple(rec["key"]))
    ok, obs = case.body(dict(rec["args"]))
    print(obs)
    return not ok
