"""C04 — all tensor representations agree on values and bytes for every dtype/shape.

Engine E2 with the `symnp` bit-vector numpy shim.  Shadow copies of `_type_casting`, `_core` and
`serde` (the current source of /repo, recompiled) run with `np`, `open`, `mmap`, `os` replaced by
shims, so every payload byte, the file content, the tensor offset and the destination position are
symbolic.  The oracle is the ONNX packing specification written directly in z3.
"""
from __future__ import annotations

import errno
import itertools
import math
import os
import tempfile

import numpy as real_np
import z3

from engine import shadow, symnp, zsym
from engine.common import Inconclusive
from engine.symnp import ShimNP, SymArr, SymBytes, SymFileBuffer, TypedField
from engine.zsym import SBool, SInt, explore, zint

LEVEL = "other"
TECHNIQUE = "symbolic execution of the real tensor code over z3 bit-vector cells (numpy/mmap/open shims) + SMT equivalence with the ONNX packing specification (QF_BV / arrays / LIA), bounded in element count"

# ONNX specification: bit width of every element type (onnx.proto3, TensorProto.DataType) — written
# down independently of onnx_ir._enums.
SPEC_BITS = {
    "FLOAT": 32, "UINT8": 8, "INT8": 8, "UINT16": 16, "INT16": 16, "INT32": 32, "INT64": 64, "BOOL": 8,
    "FLOAT16": 16, "DOUBLE": 64, "UINT32": 32, "UINT64": 64, "COMPLEX64": 64, "COMPLEX128": 128,
    "BFLOAT16": 16, "FLOAT8E4M3FN": 8, "FLOAT8E4M3FNUZ": 8, "FLOAT8E5M2": 8, "FLOAT8E5M2FNUZ": 8,
    "UINT4": 4, "INT4": 4, "FLOAT4E2M1": 4, "FLOAT8E8M0": 8, "UINT2": 2, "INT2": 2,
}
# which typed TensorProto field may hold which element types (onnx.proto3 comments)
FIELD_DTYPES = {
    "int32_data": ["BFLOAT16", "BOOL", "FLOAT16", "FLOAT4E2M1", "FLOAT8E4M3FN", "FLOAT8E4M3FNUZ", "FLOAT8E5M2",
                   "FLOAT8E5M2FNUZ", "FLOAT8E8M0", "INT16", "INT32", "INT2", "INT4", "INT8", "UINT16", "UINT2", "UINT4", "UINT8"],
    "int64_data": ["INT64"],
    "uint64_data": ["UINT64", "UINT32"],
    "float_data": ["FLOAT", "COMPLEX64"],
    "double_data": ["DOUBLE", "COMPLEX128"],
}
FIELD_BITS = {"int32_data": 32, "int64_data": 64, "uint64_data": 64, "float_data": 32, "double_data": 64}


def nbytes_spec(n, b):
    return -(-n * b // 8)


def spec_decode(B, n, b):
    """Logical little-endian packed bytes -> one cell per element (BV max(b,8); sub-byte zero-extended)."""
    if b >= 8:
        w = b // 8
        return [z3.Concat(*reversed(B[i * w:(i + 1) * w])) if w > 1 else B[i] for i in range(n)]
    per = 8 // b
    mask = (1 << b) - 1
    return [z3.LShR(B[i // per], b * (i % per)) & mask for i in range(n)]


def spec_encode(X, n, b):
    """One cell per element -> logical bytes."""
    if b >= 8:
        w = b // 8
        out = []
        for x in X:
            for k in range(w):
                out.append(z3.Extract(8 * k + 7, 8 * k, x) if w > 1 else x)
        return out
    per = 8 // b
    mask = (1 << b) - 1
    out = []
    for j in range(nbytes_spec(n, b)):
        byte = z3.BitVecVal(0, 8)
        for k in range(per):
            if per * j + k < n:
                byte = byte | ((X[per * j + k] & mask) << (b * k))
        out.append(byte)
    return out


def shapes_for(n, thorough):
    if n == 0:
        return [(0,), (2, 0, 3)] if thorough else [(0,)]
    out = [(n,)]
    if n == 1:
        out.append(())
        out.append((1, 1, 1, 1, 1))
    for a in range(2, n):
        if n % a == 0:
            out.append((a, n // a))
            if thorough:
                out.append((1, a, 1, n // a, 1))
            break
    return out


def _bcells(x):
    return list(x.cells) if isinstance(x, SymBytes) else [z3.BitVecVal(v, 8) for v in bytes(x)]


def eq_cells(got, want):
    if len(got) != len(want):
        return z3.BoolVal(False)
    cs = []
    for g, w in zip(got, want):
        if g.size() != w.size():
            return z3.BoolVal(False)
        cs.append(g == w)
    return z3.And(*cs) if cs else z3.BoolVal(True)


# ---------------------------------------------------------------------------------------------
# shims for files


class FakeProto:
    """Duck-typed TensorProto: exactly the attributes TensorProtoTensor reads."""

    def __init__(self, data_type, dims, **fields):
        self.name = "t"
        self.doc_string = ""
        self.data_type = data_type
        self.dims = list(dims)
        self.data_location = 0
        self.metadata_props = []
        self.raw_data = fields.get("raw_data", b"")
        self._has_raw = "raw_data" in fields
        for f in ("int32_data", "int64_data", "uint64_data", "float_data", "double_data", "string_data"):
            setattr(self, f, fields.get(f, []))

    def HasField(self, name):
        if name == "raw_data":
            return self._has_raw
        raise AssertionError(name)


class DestFile:
    """Regular destination file: Array content, symbolic position."""

    regular = True

    def __init__(self, content, pos, fd=7):
        self.content = content
        self.pos = zint(pos)
        self.fd = fd
        self.flushed = 0

    def fileno(self):
        return self.fd

    def flush(self):
        self.flushed += 1

    def tell(self):
        return SInt(self.pos)

    def seek(self, p, whence=0):
        if whence != 0:
            raise zsym.Unsupported("seek whence")
        self.pos = zint(p)
        return SInt(self.pos)

    def write(self, data):
        cells = data.cells if isinstance(data, SymBytes) else [z3.BitVecVal(x, 8) for x in bytes(data)]
        for i, c in enumerate(cells):
            self.content = z3.Store(self.content, self.pos + i, c)
        self.pos = self.pos + len(cells)
        return len(cells)


class DestBuffer:
    """In-memory destination: only write()."""

    regular = False

    def __init__(self):
        self.cells = []

    def write(self, data):
        cells = data.cells if isinstance(data, SymBytes) else [z3.BitVecVal(x, 8) for x in bytes(data)]
        self.cells += cells
        return len(cells)


class SrcFile:
    def __init__(self, buf: SymFileBuffer, fd=5):
        self.buf = buf
        self.pos = z3.IntVal(0)
        self.fd = fd

    def __enter__(self):
        return self

    def __exit__(self, *a):
        return False

    def fileno(self):
        return self.fd

    def seek(self, p, whence=0):
        self.pos = zint(p)

    def read(self, n=-1):
        n = int(n)
        c = zsym.ctx()
        if c.branch(self.pos + n <= self.buf.flen):
            k = n
        else:
            for k in range(n):
                if c.branch(self.buf.flen - self.pos <= k):
                    break
        cells = self.buf.cells(self.pos, k)
        self.pos = self.pos + k
        return SymBytes(cells)


class FakeMmap:
    ACCESS_READ = 1

    def __init__(self, files):
        self.files = files

    ALLOCATIONGRANULARITY = 4096
    PAGESIZE = 4096

    def mmap(self, fd, length, access=None, offset=0, **kw):
        buf = self.files[fd].buf
        if isinstance(offset, int) and offset == 0 and isinstance(length, int) and length == 0:
            return buf
        # a window of the file: index i of the mapping is byte offset+i of the file
        return buf.window(offset, length)


class FakeOS:
    """`os` stand-in for the shadow _core: real os.path; fstat on our fake fds; copy_file_range modelled
    as a kernel copy that may be short (symbolic choice) or unsupported (symbolic choice)."""

    path = os.path
    fspath = staticmethod(os.fspath)
    sep = os.sep

    def __init__(self, files, with_cfr, max_calls=6):
        self.files = files
        self.calls = 0
        self.max_calls = max_calls
        if with_cfr:
            self.copy_file_range = self._cfr

    def fstat(self, fd):
        class St:
            st_mode = 0o100644 if getattr(self.files.get(fd), "regular", True) else 0o020000

        return St()

    def stat(self, p):
        raise OSError(errno.ENOENT, "no such file")

    def _cfr(self, src_fd, dst_fd, count, offset_src=None, offset_dst=None):
        self.calls += 1
        if self.calls > self.max_calls:
            raise Inconclusive("copy_file_range loop bound exceeded (unwinding assertion)")
        c = zsym.ctx()
        i = self.calls
        if c.branch(z3.Bool(f"cfr_unsupported_{i}")):
            raise OSError(errno.EXDEV, "cross-device copy")
        src = self.files[src_fd]
        dst = self.files[dst_fd]
        count = int(count)
        so = zint(offset_src)
        if not c.branch(so < src.buf.flen):
            return 0
        k = count
        if count > 1 and i <= 2 and c.branch(z3.Bool(f"cfr_short_{i}")):
            k = count // 2
        # the kernel copies at most up to EOF
        if not c.branch(so + k <= src.buf.flen):
            raise Inconclusive("copy_file_range past EOF not modelled")
        cells = src.buf.cells(so, k)
        do = zint(offset_dst)
        for j, cell in enumerate(cells):
            dst.content = z3.Store(dst.content, do + j, cell)
        return k


# ---------------------------------------------------------------------------------------------


class Ctx:
    def __init__(self, chk, tier):
        self.chk = chk
        self.tier = tier
        self.shim = ShimNP()
        self.tc = shadow.load("onnx_ir._type_casting", np=self.shim)
        self.core = shadow.load("onnx_ir._core", np=self.shim, _type_casting=self.tc)
        self.serde = shadow.load("onnx_ir.serde", np=self.shim, _core=self.core, _type_casting=self.tc)
        import onnx_ir as ir

        self.ir = ir
        self.dtypes = [d for d in ir.DataType if d.name not in ("UNDEFINED", "STRING")]


def _run(cx, name, body, assume, replay_info, timeout_ms=20000, small=()):
    """Explore one obligation; on a counterexample replay concretely."""
    chk = cx.chk
    try:
        r = explore(body, assume, timeout_ms=timeout_ms, small=small)
    except zsym.Unsupported as e:
        chk.note_inconclusive(f"{name}: unsupported construct in the shim: {e}")
        return
    except Inconclusive as e:
        chk.note_inconclusive(f"{name}: {e}")
        return
    chk.add_stats(r.stats())
    chk.case(name)
    if r.unknown:
        chk.note_inconclusive(f"{name}: solver unknown")
    if r.cex is not None:
        model, info, _pc = r.cex
        conc = replay_info(model)
        bad, detail = concrete_case(conc)
        if bad:
            sig = f"C04:{conc['kind']}:{conc.get('group', conc['dtype'])}"
            chk.violation(sig, f"{name}: {detail}", conc)
        else:
            chk.note_inconclusive(f"{name}: solver counterexample did not reproduce on real numpy/files: {conc} ({detail})")
    return r


def _mbytes(model, cells):
    return [model.eval(c, model_completion=True).as_long() for c in cells]


def _np_dtype_for(cx, dt):
    """numpy dtype an array-backed Tensor of IR dtype `dt` may legally hold."""
    b = SPEC_BITS[dt.name]
    if b < 8:
        return real_np.dtype(real_np.uint8)
    return dt.numpy()


# ---- R3: array-backed Tensor -------------------------------------------------------------------


def ob_tensor(cx, dt, n, shape, fortran=False):
    b = SPEC_BITS[dt.name]
    cw = max(b, 8)
    X = [z3.BitVec(f"x{i}", cw) for i in range(n)]
    p0 = z3.Int("p0")
    dest0 = z3.Array("dest0", z3.IntSort(), z3.BitVecSort(8))
    j = z3.Int("j")
    name = f"Tensor[{dt.name},shape={shape}{',fortran-order' if fortran else ''}]"

    def body():
        arr = SymArr(list(X), _np_dtype_for(cx, dt), shape, fortran=fortran)
        t = cx.core.Tensor(arr, dtype=dt, name="t")
        want = spec_encode(X, n, b)
        conj = [z3.BoolVal(t.dtype == dt and tuple(t.shape.numpy()) == tuple(shape) and t.size == n and t.nbytes == nbytes_spec(n, b))]
        got_np = t.numpy()
        conj.append(z3.BoolVal(tuple(got_np.shape) == tuple(shape)))
        conj.append(eq_cells(got_np._get(), X))
        conj.append(eq_cells(t.tobytes().cells, want))
        f = DestFile(dest0, SInt(p0))
        t.tofile(f)
        conj += _dest_file_ok(f, dest0, p0, want, j)
        m = DestBuffer()
        t.tofile(m)
        conj.append(eq_cells(m.cells, want))
        return z3.And(*conj)

    def info(model):
        return dict(kind="tensor", dtype=dt.name, shape=list(shape), cells=_mbytes(model, X), p0=zsym.model_int(model, p0), fortran=fortran)

    _run(cx, name, body, [p0 >= 0], info, small=[p0])


def _dest_file_ok(f, dest0, p0, want, j):
    n = len(want)
    conj = [f.pos == p0 + n]
    for i, w in enumerate(want):
        conj.append(z3.Select(f.content, p0 + i) == w)
    conj.append(z3.Implies(z3.Or(j < p0, j >= p0 + n), z3.Select(f.content, j) == z3.Select(dest0, j)))
    return conj


# ---- R1/R2: proto-backed -----------------------------------------------------------------------


def ob_proto_raw(cx, dt, n, shape):
    b = SPEC_BITS[dt.name]
    nb = nbytes_spec(n, b)
    B = [z3.BitVec(f"b{i}", 8) for i in range(nb)]
    name = f"TensorProtoTensor.raw_data[{dt.name},shape={shape}]"

    def body():
        t = cx.serde.TensorProtoTensor(FakeProto(int(dt), shape, raw_data=SymBytes(B)))
        return _repr_ok(cx, t, dt, n, shape, B)

    def info(model):
        return dict(kind="proto_raw", dtype=dt.name, shape=list(shape), bytes=_mbytes(model, B))

    _run(cx, name, body, [], info)


def _field_bytes(cells, field, b):
    """ONNX spec: logical bytes held by a typed field for an element type of b bits."""
    fb = FIELD_BITS[field]
    take = {"int32_data": max(b, 8) // 8, "int64_data": 8, "uint64_data": b // 8, "float_data": 4, "double_data": 8}[field]
    out = []
    for c in cells:
        for k in range(take):
            out.append(z3.Extract(8 * k + 7, 8 * k, c))
    return out


def _field_count(field, n, b):
    if field in ("float_data", "double_data") and b in (64, 128) and (field == "float_data") == (b == 64):
        return 2 * n  # complex stored as (re, im) pairs
    if field == "int32_data" and b < 8:
        return nbytes_spec(n, b)
    return n


def ob_proto_field(cx, dt, field, n, shape):
    b = SPEC_BITS[dt.name]
    fb = FIELD_BITS[field]
    if dt.name in ("COMPLEX64", "COMPLEX128"):
        cnt = 2 * n
    else:
        cnt = _field_count(field, n, b)
    F = [z3.BitVec(f"f{i}", fb) for i in range(cnt)]
    name = f"TensorProtoTensor.{field}[{dt.name},shape={shape}]"

    def body():
        t = cx.serde.TensorProtoTensor(FakeProto(int(dt), shape, **{field: TypedField(F, fb)}))
        B = _field_bytes(F, field, b if dt.name not in ("COMPLEX64", "COMPLEX128") else b // 2)
        return _repr_ok(cx, t, dt, n, shape, B)

    def info(model):
        return dict(kind="proto_field", field=field, dtype=dt.name, shape=list(shape), cells=_mbytes(model, F))

    _run(cx, name, body, [], info)


def _repr_ok(cx, t, dt, n, shape, B, files=None):
    """Common oracle: a tensor whose logical bytes are B."""
    b = SPEC_BITS[dt.name]
    conj = [z3.BoolVal(t.dtype == dt and tuple(t.shape.numpy()) == tuple(shape) and t.size == n and t.nbytes == nbytes_spec(n, b) == len(B))]
    a = t.numpy()
    conj.append(z3.BoolVal(tuple(a.shape) == tuple(shape) and real_np.dtype(a.dtype).itemsize * 8 == max(b, 8)))
    conj.append(eq_cells(a._get(), spec_decode(B, n, b)))
    tb = t.tobytes()
    conj.append(eq_cells(list(tb.cells) if isinstance(tb, SymBytes) else [z3.BitVecVal(x, 8) for x in tb], B))
    m = DestBuffer()
    t.tofile(m)
    conj.append(eq_cells(m.cells, B))
    return z3.And(*conj)


# ---- R4: packed -------------------------------------------------------------------------------


def ob_packed(cx, dt, n, shape):
    b = SPEC_BITS[dt.name]
    nb = nbytes_spec(n, b)
    B = [z3.BitVec(f"b{i}", 8) for i in range(nb)]
    p0 = z3.Int("p0")
    dest0 = z3.Array("dest0", z3.IntSort(), z3.BitVecSort(8))
    j = z3.Int("j")
    name = f"PackedTensor[{dt.name},shape={shape}]"

    def body():
        t = cx.core.PackedTensor(SymArr(list(B), real_np.uint8), dt, shape=list(shape), name="t")
        conj = [_repr_ok(cx, t, dt, n, shape, B)]
        conj.append(eq_cells(t.numpy_packed()._get(), B))
        f = DestFile(dest0, SInt(p0))
        t.tofile(f)
        conj += _dest_file_ok(f, dest0, p0, B, j)
        return z3.And(*conj)

    def info(model):
        return dict(kind="packed", dtype=dt.name, shape=list(shape), bytes=_mbytes(model, B), p0=zsym.model_int(model, p0))

    _run(cx, name, body, [p0 >= 0], info, small=[p0])


# ---- R5: external (memory mapped file) ----------------------------------------------------------


def ob_external(cx, dt, n, shape, with_len, with_cfr, chunk):
    b = SPEC_BITS[dt.name]
    nb = nbytes_spec(n, b)
    farr = z3.Array("file", z3.IntSort(), z3.BitVecSort(8))
    flen, off, p0, j = z3.Ints("flen off p0 j")
    dest0 = z3.Array("dest0", z3.IntSort(), z3.BitVecSort(8))
    name = f"ExternalTensor[{dt.name},shape={shape},length={'set' if with_len else 'None'},copy_file_range={with_cfr},chunk={chunk}]"
    assume = [off >= 0, flen >= off + nb, p0 >= 0]

    def body():
        buf = SymFileBuffer(farr, flen)
        files = {}
        fos = FakeOS(files, with_cfr)

        def fake_open(path, mode="r"):
            s = SrcFile(buf, fd=5)
            files[5] = s
            return s

        core = cx.core
        saved = {k: core.__dict__.get(k) for k in ("open", "mmap", "os", "_EXTERNAL_TENSOR_COPY_CHUNK_SIZE")}
        core.__dict__.update(open=fake_open, mmap=FakeMmap(files), os=fos, _EXTERNAL_TENSOR_COPY_CHUNK_SIZE=chunk)
        try:
            B = [z3.Select(farr, off + i) for i in range(nb)]

            def mk():
                return core.ExternalTensor("w.bin", SInt(off), nb if with_len else None, dt,
                                           shape=core.Shape(list(shape)), name="t", base_dir="")

            t = mk()
            conj = [_repr_ok(cx, t, dt, n, shape, B)]
            # a fresh object: tobytes() / tofile() first, without a prior numpy()
            t2 = mk()
            conj.append(eq_cells(_bcells(t2.tobytes()), B))
            t3 = mk()
            f = DestFile(dest0, SInt(p0), fd=7)
            files[7] = f
            t3.tofile(f)
            conj += _dest_file_ok(f, dest0, p0, B, j)
            return z3.And(*conj)
        finally:
            for k, v in saved.items():
                if v is None:
                    core.__dict__.pop(k, None)
                else:
                    core.__dict__[k] = v

    def guarded():
        # a read that fails although the file contains the tensor is a violation, not a harness error
        try:
            return body()
        except (zsym.Unsupported, Inconclusive):
            raise
        except Exception as e:
            return z3.BoolVal(False), f"raised {type(e).__name__}: {e}"

    def info(model):
        o = zsym.model_int(model, off)
        fl = zsym.model_int(model, flen)
        fl = min(fl, o + nb + 64)
        content = [model.eval(z3.Select(farr, z3.IntVal(i)), model_completion=True).as_long() for i in range(fl)]
        return dict(kind="external", dtype=dt.name, shape=list(shape), offset=o, file=content, with_len=with_len,
                    p0=zsym.model_int(model, p0), group="empty" if n == 0 else f"{b}bit")

    _run(cx, name, guarded, assume, info, small=[off, flen, p0])


# ---- R6: lazy ---------------------------------------------------------------------------------


def ob_lazy(cx, dt, n, shape, cache):
    b = SPEC_BITS[dt.name]
    cw = max(b, 8)
    X = [z3.BitVec(f"x{i}", cw) for i in range(n)]
    name = f"LazyTensor[{dt.name},shape={shape},cache={cache}]"

    def body():
        calls = []

        def fn():
            calls.append(1)
            return cx.core.Tensor(SymArr(list(X), _np_dtype_for(cx, dt), shape), dtype=dt, name="inner")

        t = cx.core.LazyTensor(fn, dt, cx.core.Shape(list(shape)), cache=cache, name="t")
        want = spec_encode(X, n, b)
        conj = [z3.BoolVal(t.dtype == dt and tuple(t.shape.numpy()) == tuple(shape) and t.size == n and t.nbytes == nbytes_spec(n, b))]
        conj.append(z3.BoolVal(not calls))  # inspecting dtype/shape/size must not evaluate
        conj.append(eq_cells(t.numpy()._get(), X))
        conj.append(eq_cells(t.tobytes().cells, want))
        m = DestBuffer()
        t.tofile(m)
        conj.append(eq_cells(m.cells, want))
        if cache:
            conj.append(z3.BoolVal(len(calls) == 1))
        return z3.And(*conj)

    def info(model):
        return dict(kind="lazy", dtype=dt.name, shape=list(shape), cells=_mbytes(model, X), cache=cache)

    _run(cx, name, body, [], info)


# ---- R7: arithmetic with unbounded element count -----------------------------------------------


class _Stop(Exception):
    pass


def ob_arith(cx):
    chk = cx.chk
    n = z3.Int("n")
    for dt in cx.dtypes:
        b = SPEC_BITS[dt.name]

        class Fake:
            dtype = dt
            size = SInt(n)

        def body(Fake=Fake, b=b):
            nb = cx.core.TensorBase.nbytes.fget(Fake())
            return zint(nb) == (n * b + 7) / 8

        name = f"nbytes[{dt.name},size symbolic]"
        r = explore(body, [n >= 0, n < 2 ** 50])
        chk.add_stats(r.stats())
        chk.case(name)
        if r.cex is not None:
            nn = zsym.model_int(r.cex[0], n)
            conc = dict(kind="nbytes", dtype=dt.name, size=nn)
            bad, detail = concrete_case(conc)
            if bad:
                chk.violation(f"C04:nbytes:{dt.name}", f"{name}: {detail}", conc)
            else:
                chk.note_inconclusive(f"{name}: model n={nn} did not reproduce")
        if r.unknown:
            chk.note_inconclusive(f"{name}: unknown")

        # ExternalTensor._load: the number of items requested from the file equals nbytes
        rec = {}

        class FakeNP(ShimNP):
            @staticmethod
            def frombuffer(buf, dtype=None, count=-1, offset=0):
                rec["dtype"] = real_np.dtype(dtype)
                rec["count"] = count
                raise _Stop()

        class FakeExt:
            dtype = dt
            size = SInt(n)
            offset = 0
            path = "p"
            _array = None
            shape = None

            def _check_validity(self):
                pass

            def _check_path_containment(self):
                pass

            def __getattr__(self, name):
                # any other attribute the real code reads: evaluate the real class's property on this object
                for klass in cx.core.ExternalTensor.__mro__:
                    d = klass.__dict__.get(name)
                    if isinstance(d, property):
                        return d.fget(self)
                raise AttributeError(name)

        class FM:
            ACCESS_READ = 1

            @staticmethod
            def mmap(*a, **k):
                return object()

        class FO:
            def __enter__(self):
                return self

            def __exit__(self, *a):
                return False

            def fileno(self):
                return 3

        def body2(FakeExt=FakeExt, b=b):
            core = cx.core
            saved = {k: core.__dict__.get(k) for k in ("open", "mmap", "np")}
            core.__dict__.update(open=lambda *a, **k: FO(), mmap=FM, np=FakeNP())
            try:
                try:
                    core.ExternalTensor._load(FakeExt())
                except _Stop:
                    pass
                else:
                    return False
            finally:
                for k, v in saved.items():
                    if v is None:
                        core.__dict__.pop(k, None)
                    else:
                        core.__dict__[k] = v
            return zint(rec["count"]) * rec["dtype"].itemsize == (n * b + 7) / 8

        name = f"external_read_count[{dt.name},size symbolic]"
        r = explore(body2, [n >= 1, n < 2 ** 50])
        chk.add_stats(r.stats())
        chk.case(name)
        if r.cex is not None:
            nn = zsym.model_int(r.cex[0], n)
            conc = dict(kind="external", dtype=dt.name, shape=[nn], offset=0, file=[(37 * i + 11) % 256 for i in range(nbytes_spec(nn, b))],
                        with_len=True, p0=0, group="read_count")
            bad, detail = concrete_case(conc)
            if bad:
                chk.violation(f"C04:external:read_count:{b}bit", f"{name}: {detail}", conc)
            else:
                chk.note_inconclusive(f"{name}: model n={nn} did not reproduce ({detail})")
        if r.unknown:
            chk.note_inconclusive(f"{name}: unknown")


# ---- R8: tables --------------------------------------------------------------------------------


def ob_tables(cx):
    import ml_dtypes
    import onnx

    ir = cx.ir
    chk = cx.chk
    s = z3.Solver()
    bad = []
    seen_short = {}
    for dt in ir.DataType:
        if dt.name in ("UNDEFINED", "STRING"):
            continue
        chk.obligations += 1
        b = SPEC_BITS[dt.name]
        ok = dt.bitwidth == b and dt.itemsize * 8 == b
        npdt = dt.numpy()
        ok = ok and real_np.dtype(npdt).itemsize * 8 == max(b, 8)
        ok = ok and ir.DataType.from_numpy(npdt) == dt
        sn = dt.short_name()
        ok = ok and ir.DataType.from_short_name(sn) == dt and sn not in seen_short
        seen_short[sn] = dt
        ok = ok and int(dt) == getattr(onnx.TensorProto, dt.name)
        if ok:
            chk.discharged += 1
        else:
            bad.append(dt.name)
    chk.case("dtype tables")
    if bad:
        chk.violation("C04:tables", f"element-type tables inconsistent for {bad}", dict(kind="tables", dtypes=bad))


# ---------------------------------------------------------------------------------------------
# concrete replay on the real library (real numpy, real files)


def _py_decode(B, n, b):
    if b >= 8:
        w = b // 8
        return [int.from_bytes(bytes(B[i * w:(i + 1) * w]), "little") for i in range(n)]
    per = 8 // b
    return [(B[i // per] >> (b * (i % per))) & ((1 << b) - 1) for i in range(n)]


def _py_encode(X, n, b):
    if b >= 8:
        w = b // 8
        return [x for v in X for x in int(v).to_bytes(w, "little")]
    per = 8 // b
    out = []
    for jx in range(nbytes_spec(n, b)):
        byte = 0
        for k in range(per):
            if per * jx + k < n:
                byte |= (X[per * jx + k] & ((1 << b) - 1)) << (b * k)
        out.append(byte)
    return out


def _cells_of(arr, b):
    a = real_np.ascontiguousarray(arr)
    w = max(b, 8) // 8
    raw = a.tobytes()
    return [int.from_bytes(raw[i * w:(i + 1) * w], "little") for i in range(len(raw) // w)]


def _observe(t, n, b, shape, B, positions=(0,)):
    """Compare a real tensor object with the pure-Python spec; returns (bad, detail)."""
    problems = []
    try:
        if t.size != n or t.nbytes != nbytes_spec(n, b) or tuple(t.shape.numpy()) != tuple(shape):
            problems.append(f"size/nbytes/shape {t.size}/{t.nbytes}/{t.shape}")
        a = t.numpy()
        if tuple(a.shape) != tuple(shape):
            problems.append(f"numpy().shape={a.shape}")
        got = _cells_of(a, b)
        want = _py_decode(B, n, b)
        if b < 8:
            got = [g & 0xFF for g in got]
        if got != want:
            problems.append(f"numpy() cells {got} != spec {want}")
        tb = list(t.tobytes())
        if tb != list(B):
            problems.append(f"tobytes() {tb} != {list(B)}")
        for p0 in positions:
            with tempfile.TemporaryDirectory() as td:
                p = os.path.join(td, "dest.bin")
                pre = bytes((i * 7 + 3) % 256 for i in range(p0 + len(B) + 5))
                with open(p, "wb") as f:
                    f.write(pre)
                with open(p, "r+b") as f:
                    f.seek(p0)
                    t.tofile(f)
                    pos = f.tell()
                data = open(p, "rb").read()
                want_file = pre[:p0] + bytes(B) + pre[p0 + len(B):]
                if data != want_file or pos != p0 + len(B):
                    problems.append(f"tofile at {p0}: pos={pos}, file={list(data)} want {list(want_file)}")
        import io

        bio = io.BytesIO()
        t.tofile(bio)
        if list(bio.getvalue()) != list(B):
            problems.append(f"tofile(BytesIO) {list(bio.getvalue())}")
    except Exception as e:  # the property says these calls succeed
        problems.append(f"raised {type(e).__name__}: {e}")
    return bool(problems), "; ".join(problems) or "agrees with the specification"


def concrete_case(c):
    import onnx
    import onnx_ir as ir
    from onnx_ir import serde

    kind = c["kind"]
    if kind == "tables":
        return True, "tables"
    dt = ir.DataType[c["dtype"]]
    b = SPEC_BITS[dt.name]
    if kind == "nbytes":
        class F(ir.TensorBase if hasattr(ir, "TensorBase") else object):
            pass
        from onnx_ir import _core

        class Fk:
            dtype = dt
            size = c["size"]

        got = _core.TensorBase.nbytes.fget(Fk())
        return got != nbytes_spec(c["size"], b), f"nbytes={got} spec={nbytes_spec(c['size'], b)}"
    shape = tuple(c["shape"])
    n = math.prod(shape)
    pos = (c.get("p0", 0),)
    if kind in ("tensor", "lazy"):
        X = c["cells"]
        w = max(b, 8) // 8
        raw = b"".join(int(x).to_bytes(w, "little") for x in X)
        npdt = real_np.uint8 if b < 8 else dt.numpy()
        arr = real_np.frombuffer(raw, dtype=npdt).reshape(shape).copy()
        if c.get("fortran"):
            arr = real_np.asfortranarray(arr)
        B = _py_encode(X, n, b)
        if kind == "tensor":
            t = ir.Tensor(arr, dtype=dt, name="t")
        else:
            t = ir.LazyTensor(lambda: ir.Tensor(arr, dtype=dt), dt, ir.Shape(list(shape)), cache=c["cache"], name="t")
        bad, detail = _observe(t, n, b, shape, B, pos)
        if not bad:
            # numpy() must be the given values themselves
            got = _cells_of(t.numpy(), b)
            if got != [int(x) for x in X]:
                return True, f"numpy() cells {got} != input {X}"
        return bad, detail
    if kind == "proto_raw":
        B = c["bytes"]
        p = onnx.TensorProto(name="t", data_type=int(dt), dims=list(shape), raw_data=bytes(B))
        return _observe(serde.TensorProtoTensor(p), n, b, shape, B)
    if kind == "proto_field":
        field = c["field"]
        cells = c["cells"]
        fb = FIELD_BITS[field]
        p = onnx.TensorProto(name="t", data_type=int(dt), dims=list(shape))
        if field == "int32_data":
            p.int32_data.extend([x - (1 << 32) if x >= (1 << 31) else x for x in cells])
            take = max(b, 8) // 8
        elif field == "int64_data":
            p.int64_data.extend([x - (1 << 64) if x >= (1 << 63) else x for x in cells])
            take = 8
        elif field == "uint64_data":
            p.uint64_data.extend(cells)
            take = b // 8
        elif field == "float_data":
            vals = real_np.array(cells, dtype=real_np.uint32).view(real_np.float32)
            if not real_np.all(real_np.isfinite(vals)):
                return False, "non-finite float payload: the float_data path goes through Python floats (NaN payloads are not preserved by protobuf); outside the claim"
            p.float_data.extend([float(v) for v in vals])
            take = 4
        else:
            vals = real_np.array(cells, dtype=real_np.uint64).view(real_np.float64)
            if not real_np.all(real_np.isfinite(vals)):
                return False, "non-finite payload outside the claim"
            p.double_data.extend([float(v) for v in vals])
            take = 8
        B = [x for v in cells for x in int(v).to_bytes(fb // 8, "little")[:take]]
        return _observe(serde.TensorProtoTensor(p), n, b, shape, B)
    if kind == "packed":
        B = c["bytes"]
        t = ir.PackedTensor(real_np.array(B, dtype=real_np.uint8), dt, shape=list(shape), name="t")
        bad, detail = _observe(t, n, b, shape, B, pos)
        if not bad and list(t.numpy_packed().tobytes()) != list(B):
            return True, "numpy_packed differs"
        return bad, detail
    if kind == "external":
        content = bytes(c["file"])
        off = c["offset"]
        nb = nbytes_spec(n, b)
        B = list(content[off:off + nb])
        with tempfile.TemporaryDirectory() as td:
            with open(os.path.join(td, "w.bin"), "wb") as f:
                f.write(content)
            problems = []
            for which in ("numpy", "tobytes", "tofile"):
                t = ir.ExternalTensor("w.bin", off, nb if c.get("with_len", True) else None, dt, shape=ir.Shape(list(shape)), name="t", base_dir=td)
                try:
                    if which == "numpy":
                        bad, detail = _observe(t, n, b, shape, B, pos)
                        if bad:
                            problems.append(detail)
                    elif which == "tobytes":
                        if list(t.tobytes()) != B:
                            problems.append("tobytes() first differs")
                    else:
                        import io

                        bio = io.BytesIO()
                        t.tofile(bio)
                        if list(bio.getvalue()) != B:
                            problems.append("tofile() first differs")
                except Exception as e:
                    problems.append(f"{which}: raised {type(e).__name__}: {e}")
                finally:
                    try:
                        t.release()
                    except Exception:
                        pass
            return bool(problems), "; ".join(problems) or "agrees"
    raise AssertionError(kind)


# ---------------------------------------------------------------------------------------------


def validate_spec_against_onnx(cx):
    """Oracle validation: the pure-Python/z3 packing spec agrees with onnx.numpy_helper on samples."""
    import onnx
    from onnx import numpy_helper

    cnt = 0
    for dt in cx.dtypes:
        b = SPEC_BITS[dt.name]
        if dt.name in ("FLOAT8E8M0",) and not hasattr(onnx.TensorProto, "FLOAT8E8M0"):
            continue
        for n in (1, 3, 5):
            nb = nbytes_spec(n, b)
            B = [(i * 53 + 17 * n + 5) % 256 for i in range(nb)]
            if b < 8:
                # keep padding bits zero (onnx.numpy_helper is only specified for those)
                used = (n * b) % 8
                if used:
                    B[-1] &= (1 << used) - 1
            p = onnx.TensorProto(name="t", data_type=int(dt), dims=[n], raw_data=bytes(B))
            try:
                arr = numpy_helper.to_array(p)
            except Exception:
                continue
            got = _cells_of(arr, b)
            if b < 8:
                got = [g & ((1 << b) - 1) for g in got]
            want = _py_decode(B, n, b)
            assert got == want, (dt.name, n, got, want)
            # z3 version agrees with the python version on constants
            zc = [z3.simplify(x).as_long() for x in spec_decode([z3.BitVecVal(x, 8) for x in B], n, b)]
            assert zc == want, (dt.name, zc, want)
            ze = [z3.simplify(x).as_long() for x in spec_encode([z3.BitVecVal(x, max(b, 8)) for x in want], n, b)]
            assert ze == B, (dt.name, ze, B)
            cnt += 1
    return cnt


def _counts(b, N, thorough):
    if b < 8:
        return list(range(0, N + 1))
    base = [0, 1, 2, 3, 5] if not thorough else [0, 1, 2, 3, 4, 5, 7, 8, 12]
    if b >= 64:
        base = [x for x in base if x <= (5 if thorough else 3)]
    return base


def shard(chk, tier, item):
    """One process per element type (plus one for tables/arithmetic)."""
    cx = Ctx(chk, tier)
    thorough = tier == "thorough"
    N = 33 if thorough else 9
    if item == "tables+arith":
        ob_tables(cx)
        ob_arith(cx)
        return
    dt = cx.ir.DataType[item]
    b = SPEC_BITS[dt.name]
    for n in _counts(b, N, thorough):
        for shape in shapes_for(n, thorough):
            chk.sample({"obligation": "representations", "dtype": dt.name, "shape": list(shape)}, cap=2)
            ob_tensor(cx, dt, n, shape)
            if len(shape) == 2 and min(shape) >= 2:
                ob_tensor(cx, dt, n, shape, fortran=True)
            ob_proto_raw(cx, dt, n, shape)
            if b < 8:
                ob_packed(cx, dt, n, shape)
            for field, dts in FIELD_DTYPES.items():
                if dt.name in dts and n > 0:
                    ob_proto_field(cx, dt, field, n, shape)
    # external + lazy: one shape per count (the shape only matters for the final reshape)
    ext_counts = _counts(b, N, thorough) if b < 8 else [c for c in _counts(b, N, thorough) if c <= 3]
    if not thorough and b < 8:
        ext_counts = [c for c in ext_counts if c <= 9]
    for n in ext_counts:
        shape = shapes_for(n, False)[-1]
        for with_len in (True, False):
            for with_cfr in (False, True):
                if with_cfr and not with_len and not thorough:
                    continue
                ob_external(cx, dt, n, shape, with_len, with_cfr, chunk=3)
        if n <= 5:
            for cache in (False, True):
                ob_lazy(cx, dt, n, shape, cache)


def run(chk, tier):
    from engine.common import parallel

    cx = Ctx(chk, tier)
    thorough = tier == "thorough"
    chk.fn("_type_casting.pack_4bitx2", "_type_casting.unpack_4bitx2", "_type_casting.pack_2bitx4", "_type_casting.unpack_2bitx4",
           "_core._create_np_array_for_byte_representation", "_core._maybe_view_np_array_with_ml_dtypes", "_core._check_numpy_representation_type",
           "_core.Tensor.__init__/numpy/tobytes/tofile", "_core.PackedTensor.__init__/numpy/numpy_packed/tobytes/tofile",
           "_core.ExternalTensor._load/numpy/tobytes/tofile", "_core.LazyTensor.numpy/tobytes/tofile",
           "_core.TensorBase.size/nbytes/tofile", "_core._supports_fileno", "_core._is_regular_file",
           "serde.TensorProtoTensor.numpy/tobytes/dtype/shape", "_enums.DataType tables")
    chk.assume(
        "numpy is replaced by the symnp shim (validated against real numpy at start-up on pack/unpack/astype/view/tobytes)",
        "ndarray.tofile(file) is modelled as file.write(bytes) at the file's current position (numpy contract)",
        "mmap/open are replaced by a z3 Array(Int->BV8) file of symbolic length flen >= offset + nbytes; tensor offset and destination position are unbounded symbolic integers >= 0",
        "os.copy_file_range: may be absent, may raise an allowed errno at any call, may copy fewer bytes than requested (count//2, on the first two calls), at most 6 calls (unwinding assertion)",
        "_EXTERNAL_TENSOR_COPY_CHUNK_SIZE is set to a small constant so that the chunked copy loop iterates",
        "typed proto fields hold elements that are bit patterns of their natural numpy width (float_data: float32-representable values)",
        "TensorProto is a duck-typed object exposing the fields TensorProtoTensor reads",
        "float arithmetic in nbytes modelled in exact reals; exact for size < 2**50 (stated bound)",
        "array-backed inputs are C-contiguous or (2-D) Fortran-ordered; other stride patterns are not modelled",
    )
    chk.not_decided += [
        "framework adapters (torch / DLPack): C extensions, not encodable",
        "ir.tensor() conversion of Python sequences (numpy casting rules)",
        "StringTensor contents (no byte representation); only byte-representable element types are covered",
        "NaN payload preservation through protobuf float_data/double_data (Python float boundary)",
        "big-endian hosts",
    ]
    chk.validation.append(f"symnp vs numpy: {symnp.selftest()} concrete comparisons")
    chk.validation.append(f"packing spec vs onnx.numpy_helper.to_array: {validate_spec_against_onnx(cx)} samples")
    N = 33 if thorough else 9
    chk.bounds = dict(element_count=f"0..{N} (all counts for sub-byte types; a covering subset for wider types)",
                      offsets="unbounded Int >= 0", destination_position="unbounded Int >= 0", payload="every bit symbolic")
    items = ["tables+arith"] + [d.name for d in cx.dtypes]
    parallel(chk, "harness.C04", "shard", items)
    chk.extra["rule"] = "one case per (representation, element type, shape, storage field / length / copy path); each is decided by z3 for every payload bit, every file content, offset and destination position"


def replay(rec):
    bad, detail = concrete_case(rec)
    print(detail)
    return bad
