"""C13 — clones are faithful and fully independent of their originals.

History driver on zsym.  A seed model (hand-built, or the same model after a proto round trip so
that shapes are frozen) is cloned through a symbolic choice of clone entry point; then a symbolic
edit (which copy, which operation, which object, which payload) is applied to one copy.  Oracles:
the clone serializes exactly like the original; no graph/node/value/shape/type/metadata container is
shared (tensors may be); every reference reachable from the clone stays inside the clone (captured
outer values only when explicitly allowed, a clear error otherwise); after the edit the observable
state of the other copy — its serialized proto plus the non-serialized `meta` stores — is unchanged.
"""
from __future__ import annotations

import operator

import numpy as np
import onnx_ir as ir
from onnx_ir import serde

from engine import hist

LEVEL = "other"
TECHNIQUE = "symbolic execution (zsym, z3) of clone-then-edit histories over the real Cloner/clone()/functionalize code; oracles: proto equality, identity disjointness, differential snapshot of the untouched copy; per-path native re-execution"


def build(seed):
    x = ir.Value(name="x", type=ir.TensorType(ir.DataType.FLOAT), shape=ir.Shape(["N", 3]))
    x.metadata_props["vk"] = "vv"
    x.meta["note"] = [1, 2]
    seq = ir.Value(name="s", type=ir.SequenceType(ir.TensorType(ir.DataType.INT32)), shape=None)
    w = ir.Value(name="w", type=ir.TensorType(ir.DataType.FLOAT), shape=ir.Shape([2]), const_value=ir.Tensor(np.array([1.0, 2.0], dtype=np.float32), name="w"))
    a = ir.Node("", "Add", [x, w], name="a", attributes=[ir.AttrInt64("axis", 1)], doc_string="doc-a", metadata_props={"nk": "nv"})
    a.meta["m"] = {"k": 1}
    a.outputs[0].name = "t"
    a.outputs[0].type = ir.TensorType(ir.DataType.FLOAT)
    a.outputs[0].shape = ir.Shape(["N", 3])
    inner = ir.Node("", "Mul", [a.outputs[0], w], name="inner")
    inner.outputs[0].name = "u"
    inner.outputs[0].type = ir.TensorType(ir.DataType.FLOAT)
    inner.outputs[0].shape = ir.Shape([None, 3])
    iw = ir.Value(name="iw", type=ir.TensorType(ir.DataType.INT64), shape=ir.Shape([1]), const_value=ir.Tensor(np.array([5], dtype=np.int64), name="iw"))
    inner2 = ir.Node("", "Cast", [iw], name="inner2", attributes=[ir.AttrInt64("to", 1)])
    inner2.outputs[0].name = "u2"
    sub = ir.Graph([], [inner.outputs[0]], nodes=[inner, inner2], initializers=[iw], name="body", metadata_props={"gk": "gv"})
    c = ir.Value(name="c", type=ir.TensorType(ir.DataType.BOOL), shape=ir.Shape([]))
    iff = ir.Node("", "If", [c], attributes=[ir.AttrGraph("then_branch", sub), ir.AttrGraph("else_branch", ir.Graph([], [], nodes=[], name="empty"))], name="iff")
    iff.outputs[0].name = "y"
    iff.outputs[0].type = ir.TensorType(ir.DataType.FLOAT)
    iff.outputs[0].shape = ir.Shape(["N", 3])
    call = ir.Node("dom", "f", [iff.outputs[0]], name="call")
    call.outputs[0].name = "z"
    gz = None
    g = ir.Graph([x, c, seq], [call.outputs[0], a.outputs[0]], nodes=[a, iff, call], initializers=[w], name="main",
                 opset_imports={"": 18, "dom": 1, "custom": 1}, doc_string="gdoc", metadata_props={"mk": "mv"})
    g.meta["gm"] = "meta"
    fi = ir.Value(name="fi", type=ir.TensorType(ir.DataType.FLOAT), shape=ir.Shape(["K"]))
    fn = ir.Node("", "Relu", [fi], name="fn")
    fn.outputs[0].name = "fo"
    # attributes of every kind, each with a doc string, on a node of the function body and of the main graph
    def zoo(tag, src):
        b1 = ir.Graph([], [], nodes=[], name=f"{tag}_b1")
        b2 = ir.Graph([], [], nodes=[], name=f"{tag}_b2")
        attrs = [
            ir.Attr("a_i", ir.AttributeType.INT, 3, doc_string="doc int"),
            ir.Attr("a_fs", ir.AttributeType.FLOATS, [0.5, 1.5], doc_string="doc floats"),
            ir.Attr("a_s", ir.AttributeType.STRING, "txt", doc_string="doc str"),
            ir.Attr("a_t", ir.AttributeType.TENSOR, ir.Tensor(np.array([7], dtype=np.int32), name=f"{tag}_at"), doc_string="doc tensor"),
            ir.Attr("a_g", ir.AttributeType.GRAPH, b1, doc_string="doc graph"),
            ir.Attr("a_gs", ir.AttributeType.GRAPHS, [b2], doc_string="doc graphs"),
        ]
        n_ = ir.Node("custom", "Zoo", [src], attributes=attrs, name=f"{tag}_zoo", doc_string=f"{tag} zoo node")
        n_.outputs[0].name = f"{tag}_zo"
        return n_

    fz = zoo("f", fi)
    fz.attributes["a_ref"] = ir.Attr("a_ref", ir.AttributeType.INT, None, ref_attr_name="alpha", doc_string="doc ref")
    fg = ir.Graph([fi], [fn.outputs[0]], nodes=[fn, fz], name="fg", opset_imports={"": 18, "custom": 1})
    f = ir.Function("dom", "f", graph=fg, attributes=[ir.AttrInt64("alpha", 2)])
    g.append(zoo("g", a.outputs[0]))
    m = ir.Model(g, ir_version=11, producer_name="p", functions=[f], metadata_props={"model_k": "model_v"}, doc_string="mdoc")
    cfg_a = m.add_device_configuration("cfgA", num_devices=2)
    cfg_b = m.add_device_configuration("cfgB", num_devices=2)
    a.shard(x, configuration=cfg_a, axis=1, num_shards=2, device_indices=(0, 1))   # a configuration with specs on cloned values ...
    a.shard(a.outputs[0], configuration=cfg_a, axis=0, num_shards=2)
    a.set_pipeline_stage(cfg_b, 1)                                                     # ... followed by one with nothing to remap
    inner.shard(a.outputs[0], configuration=cfg_a, axis=1, num_shards=2)             # a spec on a captured outer value
    if seed == 1:
        m = serde.deserialize_model(serde.serialize_model(m))  # frozen shapes, proto-backed tensors
    return m


def objects(m_or_g):
    """(graphs, nodes, values) reachable from a model / graph / function, in a stable traversal order"""
    graphs, nodes, values = [], [], []
    seen = set()

    def add_value(v):
        if v is not None and id(v) not in seen:
            seen.add(id(v))
            values.append(v)

    def walk(g):
        if id(g) in seen:
            return
        seen.add(id(g))
        graphs.append(g)
        for v in list(g.inputs) + list(g.initializers.values() if isinstance(g, ir.Graph) else []):
            add_value(v)
        for n in g:
            nodes.append(n)
            for v in n.inputs:
                add_value(v)
            for v in n.outputs:
                add_value(v)
            for a in n.attributes.values():
                if isinstance(a, ir.Attr) and a.type == ir.AttributeType.GRAPH:
                    walk(a.value)
                elif isinstance(a, ir.Attr) and a.type == ir.AttributeType.GRAPHS:
                    for s in a.value:
                        walk(s)
        for v in g.outputs:
            add_value(v)

    if isinstance(m_or_g, ir.Model):
        walk(m_or_g.graph)
        for f in m_or_g.functions.values():
            walk(f.graph)
    elif isinstance(m_or_g, ir.Function):
        walk(m_or_g.graph)
    else:
        walk(m_or_g)
    return graphs, nodes, values


def containers(obj):
    """ids of every mutable container that must not be shared"""
    graphs, nodes, values = objects(obj)
    ids = {}
    for g in graphs:
        ids[id(g)] = f"graph {g.name}"
        ids[id(g.metadata_props)] = f"graph {g.name}.metadata_props"
        ids[id(g.meta)] = f"graph {g.name}.meta"
        ids[id(g.opset_imports)] = f"graph {g.name}.opset_imports"
    for n in nodes:
        ids[id(n)] = f"node {n.name}"
        ids[id(n.metadata_props)] = f"node {n.name}.metadata_props"
        ids[id(n.meta)] = f"node {n.name}.meta"
        ids[id(n.attributes)] = f"node {n.name}.attributes"
    for v in values:
        ids[id(v)] = f"value {v.name}"
        ids[id(v.metadata_props)] = f"value {v.name}.metadata_props"
        ids[id(v.meta)] = f"value {v.name}.meta"
        if v.shape is not None:
            ids[id(v.shape)] = f"value {v.name}.shape"
        t = v.type
        while t is not None and not isinstance(t, ir.DataType):
            ids[id(t)] = f"value {v.name}.type"
            t = getattr(t, "elem_type", None)
            if isinstance(t, ir.DataType):
                break
    return ids


def observe(obj):
    """observable state: the serialized proto + the meta stores (which are not serialized)"""
    graphs, nodes, values = objects(obj)
    if isinstance(obj, ir.Model):
        proto = serde.serialize_model(obj).SerializeToString(deterministic=True)
    elif isinstance(obj, ir.Function):
        proto = serde.serialize_function(obj).SerializeToString(deterministic=True)
    else:
        proto = serde.serialize_graph(obj).SerializeToString(deterministic=True)
    metas = [repr(sorted(o.meta.items(), key=repr)) for o in graphs + nodes + values]
    frozen = [None if v.shape is None else list(v.shape) for v in values]
    return proto, metas, repr(frozen)


CLONES = ["model.clone", "graph.clone", "function.clone", "subgraph.clone(allow_outer)", "subgraph.clone(strict)", "functionalize(pass)", "graphview.clone", "model.clone(deep_copy)"]
EDITS = ["v.name", "v.dtype", "v.type", "v.shape=", "v.shape.set_denotation", "v.shape[i]=", "v.const_value", "v.metadata_props", "v.meta", "v.doc_string",
         "n.attributes[k]=", "n.attributes.pop", "n.name", "n.doc_string", "n.metadata_props", "n.meta", "n.replace_input_with", "n.op_type",
         "g.remove", "g.append", "g.outputs.pop", "g.initializers.pop", "g.metadata_props", "g.doc_string", "g.opset_imports", "g.name", "g.meta",
         "model.ir_version/metadata"]


def do_clone(m, kind):
    """returns (original object, clone object, allowed_shared_value_ids)"""
    body = next(n for n in m.graph if n.op_type == "If").attributes["then_branch"].value
    if kind == "model.clone":
        return m, m.clone(), set()
    if kind == "model.clone(deep_copy)":
        return m, m.clone(deep_copy=True), set()
    if kind == "graph.clone":
        return m.graph, m.graph.clone(), set()
    if kind == "function.clone":
        f = next(iter(m.functions.values()))
        return f, f.clone(), set()
    if kind == "subgraph.clone(allow_outer)":
        outer_vals = [v for n in body for v in n.inputs if v is not None and v.graph is not body and v.producer() not in list(body)]
        outer = set()
        for v in outer_vals:  # the captured values themselves (and hence everything they own) may be shared
            outer |= {id(v), id(v.metadata_props), id(v.meta)}
            if v.shape is not None:
                outer.add(id(v.shape))
            t = v.type
            while t is not None and not isinstance(t, ir.DataType):
                outer.add(id(t))
                t = getattr(t, "elem_type", None)
        return body, body.clone(allow_outer_scope_values=True), outer
    if kind == "subgraph.clone(strict)":
        try:
            body.clone(allow_outer_scope_values=False)
        except Exception as e:  # noqa: BLE001 - must be a clear error
            chain, cur = [], e
            while cur is not None and len(chain) < 8:
                chain.append(str(cur))
                cur = cur.__cause__
            return body, ("error", type(e).__name__, " | ".join(chain)), set()
        return body, ("no-error",), set()
    if kind == "functionalize(pass)":
        class Renamer(ir.passes.InPlacePass):
            def call(self, model):
                for n in model.graph:
                    n.name = (n.name or "") + "_renamed"
                    for o in n.outputs:
                        o.dtype = ir.DataType.DOUBLE
                        if o.shape is not None:
                            o.shape.set_denotation(0, "BATCH") if len(o.shape) else None
                        o.metadata_props["touched"] = "1"
                return ir.passes.PassResult(model, True)

        before = observe(m)
        res = ir.passes.functionalize(Renamer())(m)
        return m, ("functionalized", res.model, before), set()
    if kind == "graphview.clone":
        gv = ir.GraphView(list(m.graph.inputs), list(m.graph.outputs), nodes=list(m.graph), initializers=list(m.graph.initializers.values()), name="view")
        return m.graph, gv.clone(), set()
    raise AssertionError(kind)


def apply_edit(target, edit, a, b):
    graphs, nodes, values = objects(target)
    v = values[a % len(values)]
    n = nodes[a % len(nodes)]
    g = graphs[a % len(graphs)]
    if edit == "v.name":
        v.name = "edited_name"
    elif edit == "v.dtype":
        v.dtype = ir.DataType.INT64
    elif edit == "v.type":
        v.type = ir.TensorType(ir.DataType.UINT8)
    elif edit == "v.shape=":
        v.shape = ir.Shape([9, 9])
    elif edit == "v.shape.set_denotation":
        if v.shape is not None and len(v.shape):
            v.shape.set_denotation(b % len(v.shape), "EDITED")
    elif edit == "v.shape[i]=":
        if v.shape is not None and len(v.shape):
            v.shape[b % len(v.shape)] = 77
    elif edit == "v.const_value":
        v.const_value = ir.Tensor(np.array([9.0], dtype=np.float32), name=v.name)
    elif edit == "v.metadata_props":
        v.metadata_props["edited"] = "1"
    elif edit == "v.meta":
        v.meta["edited"] = 1
        if "note" in v.meta:
            v.meta["note"].append(99)  # in-place edit of a stored object (independent only under deep_copy)
    elif edit == "v.doc_string":
        v.doc_string = "edited"
    elif edit == "n.attributes[k]=":
        n.attributes["edited"] = ir.AttrInt64("edited", 5)
    elif edit == "n.attributes.pop":
        if len(n.attributes):
            n.attributes.pop(next(iter(n.attributes)))
    elif edit == "n.name":
        n.name = "edited_node"
    elif edit == "n.doc_string":
        n.doc_string = "edited"
    elif edit == "n.metadata_props":
        n.metadata_props["edited"] = "1"
    elif edit == "n.meta":
        n.meta["edited"] = 1
        if "m" in n.meta:
            n.meta["m"]["k"] = 2
    elif edit == "n.replace_input_with":
        if len(n.inputs):
            n.replace_input_with(b % len(n.inputs), None)
    elif edit == "n.op_type":
        n.op_type = "Edited"
    elif edit == "g.remove":
        if len(g):
            g.remove(g[b % len(g)], safe=False)
    elif edit == "g.append":
        g.append(ir.Node("", "New", [], name="new_node"))
    elif edit == "g.outputs.pop":
        if len(g.outputs):
            g.outputs.pop()
    elif edit == "g.initializers.pop":
        if isinstance(g, ir.Graph) and len(g.initializers):
            g.initializers.pop(next(iter(g.initializers)))
    elif edit == "g.metadata_props":
        g.metadata_props["edited"] = "1"
    elif edit == "g.doc_string":
        g.doc_string = "edited"
    elif edit == "g.opset_imports":
        g.opset_imports["edited"] = 7
    elif edit == "g.name":
        g.name = "edited_graph"
    elif edit == "g.meta":
        g.meta["edited"] = 1
    elif edit == "model.ir_version/metadata":
        if isinstance(target, ir.Model):
            target.ir_version = 9
            target.metadata_props["edited"] = "1"
            target.opset_imports["x"] = 3
    else:
        raise AssertionError(edit)


def body_for(seed, kind_i):
    kind = CLONES[kind_i]

    def body(P):
        m = build(seed)
        problems = []
        orig, clone, allowed = do_clone(m, kind)
        edit = EDITS[operator.index(P["edit"])]
        which = operator.index(P["which"])
        a, b = operator.index(P["a"]), operator.index(P["b"])
        info = dict(kind=kind, edit=edit, which=which, a=a, b=b)
        if kind == "subgraph.clone(strict)":
            if clone[0] != "error" or "outer" not in clone[2].lower():
                problems.append(f"cloning a subgraph that captures outer values without allow_outer_scope_values must raise a clear error, got {clone[:2]}")
            return (not problems), dict(info, problems=problems)
        if kind == "functionalize(pass)":
            _, out_model, before = clone
            if observe(m) != before:
                problems.append("a functionalized pass altered its input model")
            if out_model is m:
                problems.append("a functionalized pass returned its input model object")
            return (not problems), dict(info, problems=problems)
        # (1) faithful
        ob_o, ob_c = observe(orig), observe(clone)
        if kind == "graphview.clone":
            g1, g2 = serde.serialize_graph(orig), serde.serialize_graph(clone)
            g2.name = g1.name
            g2.doc_string = g1.doc_string
            del g2.metadata_props[:]
            del g1.metadata_props[:]
            if g1 != g2:
                problems.append("clone of a graph view does not serialize like the viewed graph")
        elif ob_o[0] != ob_c[0]:
            problems.append("clone does not serialize exactly like the original")
        elif ob_o[1] != ob_c[1] and kind != "graphview.clone":
            problems.append("meta stores of the clone differ from the original")
        # (2) new objects, references stay inside the clone
        co, cc = containers(orig), containers(clone)
        shared = [(cc[i]) for i in cc if i in co and i not in allowed]
        if shared:
            problems.append(f"shared between original and clone: {shared[:4]}")
        # (2b) annotations of the clone refer to the clone's own values
        own = {id(v) for v in objects(clone)[2]}
        for n in objects(clone)[1]:
            for cfg in n.device_configurations:
                for spec in cfg.sharding_specs:
                    if spec.value is not None and id(spec.value) not in own and id(spec.value) not in allowed:
                        problems.append(f"node {n.name} of the clone carries a sharding spec bound to a value outside the clone ({spec.value.name})")
        # (3) independence under an edit
        targets = (orig, clone)
        edited, other = targets[which], targets[1 - which]
        if edit.startswith("v."):
            vals = objects(edited)[2]
            if id(vals[a % len(vals)]) in allowed:
                # the edited value is a captured outer-scope value that both copies legitimately share
                return (not problems), dict(info, raised=None, problems=problems[:3], shared_value_edit=True)
        before_other = observe(other)
        try:
            apply_edit(edited, edit, a, b)
            raised = None
        except (ValueError, TypeError, KeyError, IndexError, AttributeError, RuntimeError) as e:
            raised = type(e).__name__
        after_other = observe(other)
        if after_other != before_other:
            if not (edit in ("v.meta", "n.meta") and "deep_copy" not in kind and after_other[0] == before_other[0]
                    and after_other[2] == before_other[2]):
                # in-place mutation of an object STORED in meta is shared by design unless deep_copy=True
                what = "proto" if after_other[0] != before_other[0] else "meta" if after_other[1] != before_other[1] else "shapes"
                problems.append(f"editing the {'clone' if which else 'original'} ({edit}, object {a}) changed the {what} of the other copy")
        return (not problems), dict(info, raised=raised, problems=problems[:3])

    return body


def make_case(tier, key):
    seed, kind_i = key
    ranges = dict(edit=(0, len(EDITS) - 1), which=(0, 1), a=(0, 11), b=(0, 2))

    def sig(args, obs):
        first = obs["problems"][0]
        if "changed the" in first:
            return f"C13:independence:{obs['edit']}"
        for tag in ("serialize", "meta stores", "shared between", "clear error", "altered its input", "returned its input", "sharding spec bound"):
            if tag in first:
                return "C13:" + tag.replace(" ", "-")
        return "C13:other"

    return hist.Case(f"clone[seed {seed}: {CLONES[kind_i]}]", ranges, body_for(seed, kind_i),
                     meta=dict(sig=sig, describe=lambda a, o: f"{o['kind']} then {o['edit']} on copy {o['which']} object {o['a']}: " + "; ".join(o["problems"][:2])))


def keys_for(tier):
    return [(s, k) for s in (0, 1) for k in range(len(CLONES))]


def run(chk, tier):
    chk.fn("_cloner.Cloner.clone_graph/clone_node/clone_attr/clone_meta/_clone_or_get_value/_remap_device_configurations", "_core.Model.clone", "_core.Graph.clone",
           "_core.Function.clone", "_core.GraphView.clone", "passes._pass_infra.functionalize", "_core.Value setters / Shape.set_denotation / Node.attributes / metadata containers")
    chk.assume(
        "seed model: typed/shaped inputs (symbolic and unknown dims), sequence-typed input, initializer shared between scopes, If with a body capturing an outer value and owning an initializer, a function call, metadata_props and meta on every carrier",
        "seed 1 is the same model after serialize -> deserialize (frozen shapes, proto-backed tensors)",
        "observable state of a copy = its serialized proto + its meta stores + its shape dims; tensors may be shared; objects stored inside meta are shared unless deep_copy=True (documented)",
        "symbolic: which edit (28 kinds), which copy is edited, which object, which index",
    )
    chk.bounds = dict(clone_entry_points=CLONES, edits=len(EDITS), edits_per_history=1, seeds=2)
    chk.not_decided += ["two or more edits after cloning", "device annotations on clones (C19)"]
    hist.run_cases(chk, "harness.C13", "make_case", keys_for(tier))
    chk.extra["rule"] = "one case per (seed, clone entry point); every (edit kind, edited copy, object, index) is a feasible path decided by z3"


def replay(rec):
    case = make_case("quick", tuple(rec["key"]))
    ok, obs = case.body(dict(rec["args"]))
    print(obs)
    return not ok
