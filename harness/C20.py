"""C20 — journaling observes without interfering and always restores the classes.

History driver on zsym.  The same bounded history (C01 alphabet, symbolic operands) is executed
(1) plainly, (2) inside `depth` properly nested journals, optionally with an exception thrown inside
the innermost block, and (3) under an independent completion counter installed on the same set of
instrumented methods.  Oracles: identical snapshot S(U), raised/returned outcomes; number of journal
entries == number of COMPLETED instrumented operations; after every exit each patched class
attribute is the identical object it was at the corresponding entry; entries keep no strong
reference.
"""
from __future__ import annotations

import gc
import operator

import onnx_ir as ir
from onnx_ir import _core, _graph_containers
from onnx_ir.journaling import Journal, _wrappers

from engine import hist, irlib

LEVEL = "other"
TECHNIQUE = "symbolic execution (zsym, z3) of bounded histories executed with and without (nested) journals; differential snapshot/outcome oracle, completion-count oracle, identity of restored class attributes; per-path native re-execution"

RANGES = dict(gi=(0, 1), a=(0, 4), b=(-1, 1), c=(-1, 1), d=(0, 1))


# (nesting depth, exception thrown inside the innermost block, level whose block catches it - 0 = outside every journal)
MODES = [(1, 0, 0), (2, 1, 0), (3, 0, 0), (2, 1, 1), (3, 1, 2), (3, 1, 1), (1, 1, 0)]
QUICK_MODES = 4


class _Boom(Exception):
    pass


def _resolve(key):
    """'Node.name.fset' -> (class, 'name', 'fset'); 'Graph.append' -> (class, 'append', None)"""
    parts = key.split(".")
    cls = getattr(_core, parts[0], None) or getattr(_graph_containers, parts[0])
    return cls, parts[1], (parts[2] if len(parts) > 2 else None)


class CompletionCounter:
    """Independent instrumentation of the same methods: counts calls that RETURN."""

    def __init__(self):
        self.count = 0
        self.saved = []

    def __enter__(self):
        table = _wrappers.get_original_methods()
        for key, orig in table.items():
            cls, attr, kind = _resolve(key)
            current = cls.__dict__.get(attr)

            def make(f):
                def w(*a, **k):
                    r = f(*a, **k)
                    self.count += 1
                    return r

                return w

            self.saved.append((cls, attr, current))
            if kind == "fset":
                setattr(cls, attr, property(current.fget, make(current.fset), current.fdel, current.__doc__))
            else:
                setattr(cls, attr, make(orig))
        return self

    def __exit__(self, *exc):
        for cls, attr, current in self.saved:
            setattr(cls, attr, current)
        return False


_KEYS = list(_wrappers.get_original_methods().keys())  # which attributes journaling patches (names only)


def identity_table():
    """identity of every patched class attribute, read directly from the classes"""
    out = {}
    for key in _KEYS:
        cls, attr, kind = _resolve(key)
        cur = cls.__dict__.get(attr)
        out[key] = id(cur.fset) if kind == "fset" else id(cur)
    return out


def run_history(seed, ops, P):
    st = irlib.seed(seed)
    raised = []
    # multi-element arguments are handed over as one-shot iterators (in every one of the compared executions): recording an
    # operation must not consume what the operation is about to read
    saved, irlib.ONE_SHOT = irlib.ONE_SHOT, True
    try:
        for i, op in enumerate(ops):
            raised.append(irlib.apply(st, op, P[f"gi{i}"], P[f"a{i}"], P[f"b{i}"], P[f"c{i}"], P[f"d{i}"]))
    finally:
        irlib.ONE_SHOT = saved
    return st, raised


def body_for(seed, ops):
    weak_checked = []
    reuse_checked = []

    def body(P):
        Q = {k: operator.index(v) for k, v in P.items()}  # one concretisation shared by the three executions
        depth, throw, caught_at = MODES[Q["mode"]]
        problems = []
        pristine = identity_table()
        # (1) plain
        st0, raised0 = run_history(seed, ops, Q)
        snap0 = irlib.snapshot(st0)
        # (3) independent completion count
        with CompletionCounter() as cc:
            st_c, raised_c = run_history(seed, ops, Q)
        completed = cc.count
        if identity_table() != pristine:
            return False, dict(problems=["harness: completion counter did not restore the classes"])
        # (2) inside nested journals
        journals = []
        tables_at_entry = []
        st1 = raised1 = None
        escaped = None
        try:
            def nest(level):
                nonlocal st1, raised1
                tables_at_entry.append(identity_table())
                with Journal() as j:
                    journals.append(j)
                    if level < depth:
                        if throw and caught_at == level:
                            installed = identity_table()     # what THIS journal installed
                            try:
                                nest(level + 1)
                            except _Boom:
                                # the inner journals were left by exception; this one is still active
                                now = identity_table()
                                if now != installed:
                                    diff = [k for k in now if now[k] != installed[k]]
                                    problems.append(f"after inner journals were left by an exception caught inside journal level {level}, {len(diff)} attributes are not the objects "
                                                    f"this journal installed: {diff[:3]}")
                                n0 = len(j.entries)
                                ir.Value(name="after_catch")
                                if not any(e.operation == "init" and e.class_name == "Value" for e in j.entries[n0:]):
                                    problems.append(f"an operation performed in journal level {level} after it caught the exception of an inner journal was not recorded")
                        else:
                            nest(level + 1)
                    else:
                        st1, raised1 = run_history(seed, ops, Q)
                        if throw:
                            raise _Boom()
                after_exit = identity_table()
                if after_exit != tables_at_entry[level - 1]:
                    diff = [k for k in after_exit if after_exit[k] != tables_at_entry[level - 1][k]]
                    problems.append(f"after leaving journal level {level} these attributes are not the objects they were at entry: {diff[:4]}")

            nest(1)
        except _Boom:
            escaped = "Boom"
        if identity_table() != pristine:
            diff = [k for k, v in identity_table().items() if pristine[k] != v]
            problems.append(f"classes not restored after leaving all journals (throw={throw}): {diff[:4]}")
            _wrappers.restore_ir_classes(_wrappers_original_cache)  # keep later paths meaningful
        if bool(throw and not caught_at) != (escaped is not None):
            problems.append(f"exception inside the block: thrown={throw} escaped={escaped}")
        if raised1 != raised0:
            problems.append(f"outcomes differ with a journal: {raised0} vs {raised1}")
        if st1 is not None and irlib.snapshot(st1) != snap0:
            problems.append("IR state differs when run inside a journal")
        inner = journals[-1] if journals else None
        if inner is not None:
            n = len(inner.entries)
            if n != completed:
                ops_seen = [e.operation for e in inner.entries][:8]
                problems.append(f"{n} journal entries but {completed} instrumented operations completed (entries: {ops_seen})")
            ts = [e.timestamp for e in inner.entries]
            if ts != sorted(ts):
                problems.append("entries are not in program order")
            for j in journals[:-1]:
                if len(j.entries) != 0 and depth > 1:
                    # outer journals are shadowed by the inner one while it is active: they may only hold what ran outside
                    pass
        # a Journal OBJECT used twice: alone first, then nested inside another journal (once per case)
        if not problems and all(Q[f"{k}0"] == lo for k, (lo, _hi) in RANGES.items()) and Q["mode"] == 0:   # one designated path per case
            jr = Journal()
            with jr:
                ir.Value(name="reuse_1")
            if identity_table() != pristine:
                problems.append("classes not restored after leaving a journal that will be re-used")
            with Journal():
                at_entry = identity_table()
                with jr:
                    ir.Value(name="reuse_2")
                if identity_table() != at_entry:
                    diff = [k for k, v in identity_table().items() if at_entry[k] != v]
                    problems.append(f"after leaving a RE-USED journal nested in another one {len(diff)} attributes are not the objects they were at its entry: {diff[:3]}")
            if identity_table() != pristine:
                problems.append("classes not restored after a re-used journal was nested in another one")
                _wrappers.restore_ir_classes(_wrappers_original_cache)
        # weak references only (checked once per case: gc.collect is slow)
        if inner is not None and not problems and not weak_checked:
            weak_checked.append(1)
            with Journal() as j2:
                tmp = ir.Value(name="tmp_weak")
            ent = [e for e in j2.entries if e.operation == "init" and e.class_name == "Value"]
            del tmp
            gc.collect()
            if not ent or ent[-1].obj is not None:
                problems.append("a journal entry keeps its object alive")
        return (not problems), dict(ops=[irlib.OPS[o] for o in ops], raised=raised0, depth=depth, throw=throw, problems=problems[:4])

    return body


_wrappers_original_cache = _wrappers.get_original_methods()


def make_case(tier, key):
    seed, op = key
    ranges = {f"{p}0": r for p, r in RANGES.items()}
    ranges["mode"] = (0, len(MODES) - 1 if tier != "quick" else QUICK_MODES - 1)

    def sig(args, obs):
        first = obs["problems"][0]
        for tag in ("journal entries", "not the objects they were", "not the objects this journal installed", "was not recorded", "not restored", "outcomes differ", "IR state differs", "program order", "keeps its object", "exception inside"):
            if tag in first:
                return "C20:" + tag.replace(" ", "-")
        return "C20:other"

    return hist.Case(f"journal[seed {seed}: {irlib.OPS[op]}]", ranges, body_for(seed, [op]),
                     meta=dict(sig=sig, describe=lambda a, o: f"{o['ops']} {a} depth={o['depth']} throw={o['throw']} raised={o['raised']}: " + "; ".join(o["problems"][:2])))


def keys_for(tier):
    seeds = (0, 5) if tier == "quick" else range(irlib.N_SEEDS)
    return [(s, o) for s in seeds for o in range(irlib.N_OPS)]


def run(chk, tier):
    chk.fn("journaling._journaling.Journal.__enter__/__exit__/record", "journaling._wrappers.wrap_ir_classes/restore_ir_classes/get_original_methods",
           "journaling._wrappers._init_wrapper/_setter_wrapper/_method_wrapper/_container_method_wrapper", "every instrumented _core / _graph_containers method (through the C01 alphabet)")
    chk.assume(
        f"operand selectors and payload ints symbolic within {RANGES}; a symbolic mode selects (nesting depth, exception at the end of the innermost block) from {MODES}",
        "'completed instrumented operation' = a call of one of the methods listed by journaling._wrappers.get_original_methods() that returns without raising, counted by an independent wrapper",
        "the three executions of a history use the same concretised parameters",
    )
    chk.bounds = dict(history_length=1, seeds="0,5" if tier == "quick" else "all", operations=irlib.N_OPS, nesting="1..3")
    chk.not_decided += ["histories longer than one top-level call inside the journal", "hooks added with add_hook"]
    hist.run_cases(chk, "harness.C20", "make_case", keys_for(tier))
    chk.extra["rule"] = "one case per (seed, operation); all operand values, nesting depths and exception choices are feasible paths decided by z3"


def replay(rec):
    case = make_case("quick", tuple(rec["key"]))
    ok, obs = case.body(dict(rec["args"]))
    print(obs)
    return not ok
