"""C10 — external tensor reads never escape the model directory (fail closed).

Engine E2 with z3 strings.  The real `ExternalTensor._check_path_containment` (all three layers) and
the real read entry points run in a shadow `_core` whose `os` is a contract-constrained
nondeterministic stub: the canonicalisations `abspath∘normpath` and `realpath` return *arbitrary*
canonical absolute paths (z3 strings), `stat().st_nlink` is an arbitrary integer or an OSError.  The
oracle states containment component-wise, independently of the implementation's prefix test.
`_io.load`'s base-directory derivation runs with a z3-string transcription of `posixpath.dirname`
(validated against the real function on concrete paths at start-up).
"""
from __future__ import annotations

import os
import posixpath
import shutil
import tempfile

import z3

from engine import shadow, zsym
from engine.common import Inconclusive
from engine.zsym import SBool, SInt, SStr, explore, zstr

LEVEL = "other"
TECHNIQUE = "symbolic execution of the real containment check and read entry points over z3 strings with nondeterministic, contract-constrained os stubs + SMT (z3 sequence theory); counterexamples realised as real directories/symlinks/hard links and replayed"

ALPHA = "ab_."


def _re_alpha():
    return z3.Union(*[z3.Re(c) for c in ALPHA])


def canonical(s):
    """canonical absolute POSIX path: '/' or ('/' comp)+ with comp not in {'', '.', '..'}."""
    comp = z3.Intersect(z3.Plus(_re_alpha()), z3.Complement(z3.Union(z3.Re("."), z3.Re(".."))))
    return z3.InRe(s, z3.Union(z3.Re("/"), z3.Plus(z3.Concat(z3.Re("/"), comp))))


def inside(p, b):
    """p is b or lies below b, component-wise (both canonical)."""
    return z3.Or(p == b, b == z3.StringVal("/"), z3.PrefixOf(z3.Concat(b, z3.StringVal("/")), p))


class StatResult:
    def __init__(self, nlink):
        self.st_nlink = nlink
        self.st_mode = 0o100644


class FakePath:
    """`os.path` stand-in.  join is a transcription of posixpath.join for two arguments; the
    canonicalisation functions are nondeterministic with the canonical-path contract."""

    sep = "/"

    def __init__(self, owner):
        self.o = owner

    def join(self, a, *rest):
        out = a
        for b in rest:
            if isinstance(out, str) and isinstance(b, str):
                out = posixpath.join(out, b)
                continue
            ta, tb = zstr(out), zstr(b)
            c = zsym.ctx()
            if c.branch(z3.PrefixOf(z3.StringVal("/"), tb)):
                out = SStr(tb)
            elif c.branch(z3.Or(z3.Length(ta) == 0, z3.SuffixOf(z3.StringVal("/"), ta))):
                out = SStr(z3.Concat(ta, tb))
            else:
                out = SStr(z3.Concat(ta, z3.StringVal("/"), tb))
        return out

    def _canon(self, kind, x):
        """An arbitrary canonical absolute path; the same argument always maps to the same result."""
        key = (kind, str(zstr(x)))
        if key not in self.o.canon:
            v = z3.String(f"{kind}{len(self.o.canon)}")
            self.o.canon[key] = v
            self.o.canon_args[key] = zstr(x)
            zsym.ctx().assume(canonical(v))
            zsym.ctx().assume(z3.Length(v) <= self.o.maxlen)
        return SStr(self.o.canon[key])

    def abspath(self, p):
        return self._canon("abs", p)

    def normpath(self, p):
        # only ever applied to the result of abspath (already canonical) or before it
        if ("abs", str(zstr(p))) in self.o.canon or any(str(v) == str(zstr(p)) for v in self.o.canon.values()):
            return p if isinstance(p, SStr) else SStr(zstr(p))
        return self._canon("abs", p)

    def normcase(self, p):
        return p

    def realpath(self, p, strict=False):
        return self._canon("real", p)

    def isabs(self, p):
        return SBool(z3.PrefixOf(z3.StringVal("/"), zstr(p)))

    def commonprefix(self, items):
        a, b = (zstr(x) for x in items)
        r = z3.String(f"cp{len(self.o.canon)}_{self.o.fresh()}")
        c = zsym.ctx()
        c.assume(z3.PrefixOf(r, a))
        c.assume(z3.PrefixOf(r, b))
        n = z3.Length(r)
        c.assume(z3.Or(n == z3.Length(a), n == z3.Length(b), z3.SubString(a, n, 1) != z3.SubString(b, n, 1)))
        return SStr(r)

    def dirname(self, p):
        return sym_dirname(p)

    def exists(self, p):
        return bool(SBool(z3.Bool(f"exists{self.o.fresh()}")))

    def _predicate(self, kind, p):
        # an arbitrary but functional answer (the same path always gets the same answer); deliberately NOT tied to the
        # canonical forms, so that asking does not count as canonicalising
        f = z3.Function(f"path_{kind}", z3.StringSort(), z3.BoolSort())
        return bool(SBool(f(zstr(p))))

    def islink(self, p):
        return self._predicate("islink", p)

    def isfile(self, p):
        return self._predicate("isfile", p)

    def isdir(self, p):
        return self._predicate("isdir", p)

    def lexists(self, p):
        return self._predicate("lexists", p)


def sym_dirname(p):
    """z3-string transcription of posixpath.dirname."""
    if isinstance(p, str):
        return posixpath.dirname(p)
    t = zstr(p)
    c = zsym.ctx()
    if not c.branch(z3.Contains(t, z3.StringVal("/"))):
        return ""
    i = z3.LastIndexOf(t, z3.StringVal("/")) + 1
    head = z3.SubString(t, 0, i)
    if c.branch(z3.InRe(head, z3.Plus(z3.Re("/")))):
        return SStr(head)
    r = z3.String(f"dirname_{id(p) % 10007}")
    tail = z3.String(f"dirname_tail_{id(p) % 10007}")
    c.assume(head == z3.Concat(r, tail))
    c.assume(z3.InRe(tail, z3.Plus(z3.Re("/"))))
    c.assume(z3.Not(z3.SuffixOf(z3.StringVal("/"), r)))
    return SStr(r)


class FakeOS:
    sep = "/"

    def __init__(self, maxlen):
        self.canon = {}
        self.canon_args = {}
        self.maxlen = maxlen
        self._n = 0
        self.path = FakePath(self)
        self.stat_calls = []   # (kind, path term, outcome)
        self.opened = []

    def fresh(self):
        self._n += 1
        return self._n

    def __getattr__(self, name):
        # constants (curdir, pardir, altsep, ...) come from the real os; any function that is not
        # modelled here is unsupported rather than silently concrete
        v = getattr(os, name)
        if callable(v):
            raise zsym.Unsupported(f"os.{name} is not modelled by the C10 stub")
        return v

    def fspath(self, p):
        if isinstance(p, (str, SStr)):
            return p
        return os.fspath(p)

    def _stat(self, kind, p):
        i = self.fresh()
        c = zsym.ctx()
        t = zstr(p)
        # one link count per (kind, path): an uninterpreted function of the path string
        f = z3.Function(f"nlink_{kind}", z3.StringSort(), z3.IntSort())
        e = z3.Function(f"exists_{kind}", z3.StringSort(), z3.BoolSort())
        # file-system contract linking the views of one file: stat follows symlinks, so stat(p) is
        # stat(realpath(p)); lstat(p) differs from it only if p is reached through a symlink
        fs = z3.Function("nlink_stat", z3.StringSort(), z3.IntSort())
        es = z3.Function("exists_stat", z3.StringSort(), z3.BoolSort())
        a = zstr(self.path.abspath(p))
        r = zstr(self.path.realpath(p))
        if kind == "stat":
            c.assume(z3.And(e(t) == es(r), f(t) == fs(r)))
        else:
            c.assume(z3.Implies(a == r, z3.And(e(t) == es(r), f(t) == fs(r))))
        if not c.branch(e(t)):
            self.stat_calls.append((kind, t, "ENOENT"))
            raise FileNotFoundError(2, "No such file or directory")
        c.assume(f(t) >= 1)
        self.stat_calls.append((kind, t, f(t)))
        return StatResult(SInt(f(t)))

    def stat(self, p, **kw):
        return self._stat("stat", p)

    def lstat(self, p, **kw):
        return self._stat("lstat", p)


# ---------------------------------------------------------------------------------------------


class Env:
    def __init__(self, chk):
        self.chk = chk
        self.core = shadow.load("onnx_ir._core")
        self.io = shadow.load("onnx_ir._io")
        import onnx_ir as ir

        self.ir = ir


def _find(fos, kind, term):
    for (k, a), v in fos.canon.items():
        if k == kind and str(fos.canon_args[(k, a)]) == str(term):
            return v
    return None


def ob_containment(env, maxlen):
    """check returns normally  =>  lexical containment AND resolved containment AND single link."""
    chk = env.chk
    base = z3.String("base_dir")
    loc = z3.String("location")
    name = f"containment[len<={maxlen}]"
    alpha_all = z3.Star(z3.Union(_re_alpha(), z3.Re("/")))
    assume = [z3.Length(base) >= 1, z3.Length(base) <= maxlen, z3.Length(loc) >= 1, z3.Length(loc) <= maxlen,
              z3.InRe(base, alpha_all), z3.InRe(loc, alpha_all)]
    holder = {}

    def body():
        fos = FakeOS(maxlen)
        holder["fos"] = fos
        core = env.core
        # a real instance (so that every attribute __init__ sets exists), then the two path attributes become symbolic
        t = core.ExternalTensor("w", 0, 4, env.ir.DataType.UINT8, shape=core.Shape([4]), name="t", base_dir="/b")
        saved = core.__dict__.get("os")
        core.__dict__["os"] = fos
        try:
            t._base_dir = SStr(base)
            t._location = SStr(loc)
            try:
                t._check_path_containment()
                accepted = True
            except ValueError:
                accepted = False
        finally:
            core.__dict__["os"] = saved
        if not accepted:
            return True, dict(accepted=False)
        path = fos.path.join(SStr(base), SStr(loc))
        # the canonical forms the environment returned for base and path
        b_abs = _find(fos, "abs", base)
        p_abs = _find(fos, "abs", zstr(path))
        b_real = _find(fos, "real", base)
        p_real = _find(fos, "real", zstr(path))
        if b_abs is None or p_abs is None or b_real is None or p_real is None:
            # the code accepted without canonicalising one of the four paths
            return False, dict(accepted=True, missing=[k for k, v in (("abs(base)", b_abs), ("abs(path)", p_abs), ("real(base)", b_real), ("real(path)", p_real)) if v is None])
        e = z3.Function("exists_stat", z3.StringSort(), z3.BoolSort())
        f = z3.Function("nlink_stat", z3.StringSort(), z3.IntSort())
        single = z3.Or(z3.Not(e(p_real)), f(p_real) <= 1)
        root = z3.StringVal("/")
        natural = [b_abs != root, b_real != root, z3.Not(z3.PrefixOf(z3.Concat(p_abs, root), b_abs)), z3.Not(z3.PrefixOf(z3.Concat(p_real, root), b_real)),
                   p_abs != b_abs, p_real != b_real]
        prefer = [
            natural + [b_abs == b_real, p_abs == p_real, z3.Or(z3.Not(e(p_real)), f(p_real) <= 1)],   # no links at all
            natural + [b_abs == b_real, p_abs == p_real],                                             # hard link only
            natural + [b_abs == b_real, z3.Or(z3.Not(e(p_real)), f(p_real) <= 1)],                    # file symlink only
            natural + [b_abs == b_real],
            natural,
        ]
        return z3.And(inside(p_abs, b_abs), inside(p_real, b_real), single), dict(
            accepted=True, terms=[str(b_abs), str(p_abs), str(b_real), str(p_real)], prefer=prefer)

    def twin():
        out = body()
        return (z3.BoolVal(not out[1].get("accepted")) if isinstance(out, tuple) else False)

    r = explore(body, assume, timeout_ms=30000)
    chk.add_stats(r.stats())
    chk.case(name)
    chk.sample({"obligation": name, "paths": r.paths, "queries": r.queries})
    if r.unknown:
        chk.note_inconclusive(f"{name}: solver unknown on {len(r.unknown)} path(s)")
    if r.cex is not None:
        model, info, _ = r.cex
        fos = holder["fos"]
        conc = _concretise(model, info, fos, base)
        bad, detail = realise_and_read(conc)
        if bad:
            chk.violation(f"C10:containment:{conc['layer']}", f"{name}: {detail}", conc)
        else:
            chk.note_inconclusive(f"{name}: counterexample did not reproduce on a real directory tree: {conc} ({detail})")
    # vacuity: some path must be accepted
    rt = explore(twin, assume, timeout_ms=30000)
    chk.queries += rt.queries
    chk.solver_s += rt.solver_s
    if rt.cex is None:
        raise Inconclusive(f"{name}: reachability twin not violated — no accepted path exists (vacuous)")
    chk.vacuity_ok(name)


def _concretise(model, info, fos, base):
    def ev(t):
        return model.eval(t, model_completion=True).as_string()

    vals = {}
    for (k, a), v in fos.canon.items():
        vals[(k, a)] = ev(v)
    terms = info.get("terms") if info else None
    b_abs = p_abs = b_real = p_real = None
    if terms:
        lookup = {str(v): ev(v) for v in fos.canon.values()}
        b_abs, p_abs, b_real, p_real = (lookup[t] for t in terms)
    e = z3.Function("exists_stat", z3.StringSort(), z3.BoolSort())
    f = z3.Function("nlink_stat", z3.StringSort(), z3.IntSort())
    nlink = None
    if p_real is not None:
        pr = z3.StringVal(p_real)
        if z3.is_true(model.eval(e(pr), model_completion=True)):
            nlink = model.eval(f(pr), model_completion=True).as_long()

    def ins(p, b):
        return p == b or b == "/" or p.startswith(b + "/")

    layer = "unknown"
    if b_abs is not None:
        if not ins(p_abs, b_abs):
            layer = "lexical"
        elif not ins(p_real, b_real):
            layer = "resolved"
        elif nlink and nlink > 1:
            layer = "hardlink"
    else:
        layer = "skipped-canonicalisation"
    return dict(kind="containment", base_abs=b_abs, path_abs=p_abs, base_real=b_real, path_real=p_real, nlink=nlink, layer=layer,
                missing=(info or {}).get("missing"))


def attack_layouts():
    """real directory tree with one escaping location per layer; returns the locations the real library reads"""
    import onnx_ir as ir

    root = tempfile.mkdtemp(prefix="c10l_")
    leaks = []
    try:
        base = os.path.join(root, "base")
        os.makedirs(base)
        os.makedirs(os.path.join(root, "outside"))
        for nm in ("secret.bin", "secret2.bin"):
            with open(os.path.join(root, "outside", nm), "wb") as f:
                f.write(b"SECRET!!")
        os.symlink("../outside/secret.bin", os.path.join(base, "link.bin"))          # file symlink
        os.symlink("../outside", os.path.join(base, "d"))                            # symlinked directory
        os.link(os.path.join(root, "outside", "secret2.bin"), os.path.join(base, "hard.bin"))   # hard link
        for loc in ("link.bin", "d/secret.bin", "hard.bin", "../outside/secret.bin", os.path.join(root, "outside", "secret.bin")):
            for how in ("numpy", "tobytes"):
                t = ir.ExternalTensor(loc, 0, 8, ir.DataType.UINT8, shape=ir.Shape([8]), name="t", base_dir=base)
                try:
                    getattr(t, how)()
                    leaks.append(f"{loc} ({how})")
                except Exception:   # noqa: BLE001 - any refusal is acceptable
                    pass
    finally:
        shutil.rmtree(root, ignore_errors=True)
    return leaks


def realise_and_read(c):
    """Build a real directory tree in which abspath/realpath/st_nlink take the model's values (all
    under a temporary root), then read through every entry point of the real library."""
    import numpy as np
    import onnx_ir as ir

    if c.get("base_abs") is None:
        # the symbolic run accepted a location without asking for one of the canonical forms: confirm on the real code with
        # the standard layouts each layer exists for
        leaks = attack_layouts()
        if leaks:
            return True, f"accepted without canonicalising {c.get('missing')}; on a real directory tree these locations were read although they leave the base directory: {leaks}"
        return False, f"accepted without canonicalising {c.get('missing')}, but none of the standard escaping layouts could be read"
    root = tempfile.mkdtemp(prefix="c10_")
    try:
        def R(p):
            return root + p if p != "/" else root + "/"

        b_abs, p_abs, b_real, p_real = c["base_abs"], c["path_abs"], c["base_real"], c["path_real"]
        payload = b"SECRET!!"
        # resolved locations first
        os.makedirs(os.path.dirname(R(p_real)) or root, exist_ok=True)
        if os.path.isdir(R(p_real)):
            return False, "model makes the data path a directory; not realisable as a file"
        with open(R(p_real), "wb") as f:
            f.write(payload)
        if c.get("nlink") and c["nlink"] > 1:
            for k in range(c["nlink"] - 1):
                os.link(R(p_real), os.path.join(root, f"__hardlink{k}"))
        os.makedirs(R(b_real), exist_ok=True)
        # lexical locations: symlinks to the resolved ones where they differ
        if b_abs != b_real:
            if os.path.lexists(R(b_abs)):
                return False, "base_abs already exists as something else; not realisable"
            os.makedirs(os.path.dirname(R(b_abs)), exist_ok=True)
            os.symlink(R(b_real), R(b_abs))
        else:
            os.makedirs(R(b_abs), exist_ok=True)
        if os.path.realpath(R(p_abs)) != os.path.realpath(R(p_real)):
            parent = os.path.dirname(R(p_abs))
            try:
                os.makedirs(parent, exist_ok=True)
                if os.path.lexists(R(p_abs)):
                    return False, "path_abs already exists and resolves elsewhere; not realisable"
                os.symlink(R(p_real), R(p_abs))
            except OSError as e:
                return False, f"not realisable: {e}"
        if os.path.realpath(R(b_abs)) != os.path.realpath(R(b_real)) or os.path.realpath(R(p_abs)) != os.path.realpath(R(p_real)):
            return False, "tree does not realise the model's resolutions"
        location = os.path.relpath(R(p_abs), R(b_abs))
        leaks = []
        for entry in ("numpy", "tobytes", "tofile", "__array__"):
            t = ir.ExternalTensor(location, 0, len(payload), ir.DataType.UINT8, shape=ir.Shape([len(payload)]), name="t", base_dir=R(b_abs))
            try:
                if entry == "numpy":
                    got = t.numpy().tobytes()
                elif entry == "tobytes":
                    got = t.tobytes()
                elif entry == "__array__":
                    got = np.asarray(t).tobytes()
                else:
                    import io

                    bio = io.BytesIO()
                    t.tofile(bio)
                    got = bio.getvalue()
                if got == payload:
                    leaks.append(entry)
            except ValueError:
                pass
            finally:
                try:
                    t.release()
                except Exception:
                    pass
        expect_reject = not (
            (p_abs == b_abs or b_abs == "/" or p_abs.startswith(b_abs + "/"))
            and (p_real == b_real or b_real == "/" or p_real.startswith(b_real + "/"))
            and not (c.get("nlink") and c["nlink"] > 1)
        )
        if expect_reject and leaks:
            return True, f"read succeeded through {leaks} for base={b_abs!r} location={location!r} (resolves to {p_real!r}, base resolves to {b_real!r}, nlink={c.get('nlink')})"
        return False, "rejected as it must be" if expect_reject else "legitimately inside"
    finally:
        shutil.rmtree(root, ignore_errors=True)


def ob_entry_points(env):
    """Every read entry point runs the containment check before it opens the file, and does not open
    at all when the check rejects.  The check's outcome is a symbolic boolean."""
    chk = env.chk
    core = env.core
    ir = env.ir
    rej = z3.Bool("check_rejects")
    for entry in ("numpy", "tobytes", "tofile", "__array__", "serialize_raw"):
        name = f"entry_point[{entry}]"
        events = []

        def body(entry=entry):
            del events[:]

            class Rejected(ValueError):
                pass

            def fake_check(self):
                events.append("check")
                if zsym.sym_bool(rej):
                    raise Rejected("outside")

            class Stop(Exception):
                pass

            def fake_open(*a, **k):
                events.append("open")
                raise Stop()

            saved = (core.ExternalTensor._check_path_containment, core.__dict__.get("open"))
            core.ExternalTensor._check_path_containment = fake_check
            core.__dict__["open"] = fake_open
            try:
                t = core.ExternalTensor("w.bin", 0, 4, ir.DataType.UINT8, shape=core.Shape([4]), name="t", base_dir="/m")
                try:
                    if entry == "numpy":
                        t.numpy()
                    elif entry == "tobytes":
                        t.tobytes()
                    elif entry == "__array__":
                        t.__array__()
                    elif entry == "tofile":
                        import io

                        t.tofile(io.BytesIO())
                    else:
                        # serialization of an external tensor to raw bytes goes through tobytes()
                        core.TensorBase.tofile(t, __import__("io").BytesIO())
                except (Rejected, Stop):
                    pass
            finally:
                core.ExternalTensor._check_path_containment = saved[0]
                if saved[1] is None:
                    core.__dict__.pop("open", None)
                else:
                    core.__dict__["open"] = saved[1]
            ok = "check" in events and (("open" not in events) or events.index("check") < events.index("open"))
            opened = "open" in events
            return z3.And(z3.BoolVal(ok), rej == z3.BoolVal(not opened)), dict(events=list(events))

        r = explore(body, [])
        chk.add_stats(r.stats())
        chk.case(name)
        if r.cex is not None:
            model = r.cex[0]
            holds, info = zsym.concrete_run(body, model)
            if not holds:
                chk.violation(f"C10:entry:{entry}", f"{name}: file opened without a preceding successful containment check: {info}", dict(kind="entry", entry=entry, info=info))
            else:
                chk.note_inconclusive(f"{name}: counterexample did not reproduce")


def ob_repeated_reads(env):
    """The check is performed on EVERY read, not once per tensor object: between two reads of the same tensor the
    file at its location may have been replaced (hard link / symlink to a file outside).  The real
    `_check_path_containment` runs both times; the link count reported by os.stat for the second read is symbolic."""
    chk = env.chk
    core = env.core
    ir = env.ir
    n2 = z3.Int("nlink_at_second_read")

    class Stop(Exception):
        pass

    for first in ("numpy", "tobytes", "tofile", "__array__"):
        for second in ("numpy", "tobytes", "tofile", "__array__"):
            name = f"repeated_reads[{first} then {second}]"
            events = []

            def do(t, entry):
                import io

                try:
                    if entry == "numpy":
                        t.numpy()
                    elif entry == "tobytes":
                        t.tobytes()
                    elif entry == "__array__":
                        t.__array__()
                    else:
                        t.tofile(io.BytesIO())
                except Stop:
                    return "opened"
                except ValueError:
                    return "rejected"
                return "returned"

            def body(first=first, second=second):
                del events[:]
                calls = []

                class RecOS:
                    sep = "/"
                    path = posixpath
                    fspath = staticmethod(os.fspath)
                    PathLike = os.PathLike

                    @staticmethod
                    def stat(p_, **kw):
                        calls.append(p_)
                        events.append("stat")
                        return StatResult(1 if phase[0] == 1 else zsym.sym_int(n2))

                    def __getattr__(self, k):
                        return getattr(os, k)

                class RecPath:
                    def __getattr__(self, k):
                        return getattr(posixpath, k)

                    @staticmethod
                    def realpath(p_, strict=False):
                        events.append("realpath")
                        return posixpath.normpath(posixpath.join("/cwd", p_))

                    @staticmethod
                    def abspath(p_):
                        return posixpath.normpath(posixpath.join("/cwd", p_))

                ros = RecOS()
                ros.path = RecPath()

                def fake_open(*a, **k):
                    events.append("open")
                    raise Stop()

                phase = [1]
                saved = (core.__dict__.get("os"), core.__dict__.get("open"))
                core.__dict__["os"] = ros
                core.__dict__["open"] = fake_open
                try:
                    t = core.ExternalTensor("w.bin", 0, 4, ir.DataType.UINT8, shape=core.Shape([4]), name="t", base_dir="/m")
                    r1 = do(t, first)
                    t.release()
                    del events[:]
                    phase[0] = 2
                    r2 = do(t, second)
                finally:
                    core.__dict__["os"] = saved[0]
                    if saved[1] is None:
                        core.__dict__.pop("open", None)
                    else:
                        core.__dict__["open"] = saved[1]
                opened2 = "open" in events
                probed2 = "stat" in events and (not opened2 or events.index("stat") < events.index("open"))
                # the second read may open the file only after probing it again, and only if the link count is acceptable
                nl = zsym.zint(zsym.sym_int(n2)) if zsym.MODEL is None else z3.IntVal(zsym.sym_int(n2))
                return z3.And(z3.BoolVal(r1 == "opened"), z3.Implies(z3.BoolVal(opened2), z3.And(z3.BoolVal(probed2), nl <= 1))), dict(first=r1, second=r2, events=list(events))

            r = explore(body, [n2 >= 1, n2 <= 3])
            chk.add_stats(r.stats())
            chk.case(name)
            if r.unknown:
                chk.note_inconclusive(f"{name}: unknown")
            if r.cex is not None:
                model = r.cex[0]
                holds, info = zsym.concrete_run(body, model)
                if holds:
                    chk.note_inconclusive(f"{name}: counterexample did not reproduce")
                    continue
                bad, detail = replay_repeated(first, second)
                if bad:
                    chk.violation("C10:repeated-read", f"{name}: with link count {zsym.model_int(model, n2)} at the second read the file was opened ({info}); real files: {detail}",
                                  dict(kind="repeated", first=first, second=second))
                else:
                    chk.note_inconclusive(f"{name}: stub-level counterexample did not reproduce on real files ({detail})")


def replay_repeated(first, second):
    """real files: read a legitimate tensor, replace its file by a hard link to a file outside the base directory, read again"""
    import io

    import onnx_ir as ir

    root = tempfile.mkdtemp(prefix="c10r_")
    try:
        base = os.path.join(root, "model")
        os.makedirs(base)
        with open(os.path.join(base, "w.bin"), "wb") as f:
            f.write(b"GOOD")
        with open(os.path.join(root, "secret.bin"), "wb") as f:
            f.write(b"EVIL")
        t = ir.ExternalTensor("w.bin", 0, 4, ir.DataType.UINT8, shape=ir.Shape([4]), name="t", base_dir=base)

        def do(entry):
            if entry == "numpy":
                return bytes(t.numpy().tobytes())
            if entry == "tobytes":
                return bytes(t.tobytes())
            if entry == "__array__":
                return bytes(t.__array__().tobytes())
            b = io.BytesIO()
            t.tofile(b)
            return b.getvalue()

        do(first)
        t.release()
        os.remove(os.path.join(base, "w.bin"))
        os.link(os.path.join(root, "secret.bin"), os.path.join(base, "w.bin"))
        try:
            data = do(second)
        except ValueError:
            return False, "second read rejected"
        return True, f"second read through {second}() returned {data!r} from a hard link to a file outside the base directory"
    finally:
        shutil.rmtree(root, ignore_errors=True)


def ob_load_reaches_all_tensors(env):
    """load() must hand the model's directory to EVERY external tensor: initializers of the main graph and of bodies at
    any depth, tensors held in node attributes (TENSOR / TENSORS) in the main graph, in bodies and in model-local functions.
    Structural complement of load_base_dir (concrete: the places are enumerated, the real ir.load runs on a real file)."""
    import onnx
    from onnx import TensorProto as TP
    from onnx import helper as H

    import onnx_ir as ir

    chk = env.chk

    def ext(name):
        t = TP(name=name, data_type=TP.UINT8, dims=[4], data_location=TP.EXTERNAL)
        for k, v in (("location", "w.bin"), ("offset", "0"), ("length", "4")):
            e = t.external_data.add()
            e.key, e.value = k, v
        return t

    deep = H.make_graph([H.make_node("Constant", [], ["dk"], name="deep_const", value=ext("t_deep_attr"))], "deep", [], [H.make_tensor_value_info("dk", TP.UINT8, [4])],
                        initializer=[ext("t_deep_init")])
    mid = H.make_graph([H.make_node("If", ["c"], ["mo"], name="mid_if", then_branch=deep, else_branch=deep)], "mid", [], [H.make_tensor_value_info("mo", TP.UINT8, [4])],
                       initializer=[ext("t_mid_init")])
    fnode = H.make_node("Constant", [], ["fk"], name="f_const", value=ext("t_fn_attr"))
    fn = H.make_function("local", "f", [], ["fk"], [fnode], [H.make_opsetid("", 18)])
    multi = H.make_node("Zoo", [], ["z"], name="zoo", domain="custom")
    multi.attribute.append(H.make_attribute("ts", [ext("t_list_attr0"), ext("t_list_attr1")]))
    g = H.make_graph([H.make_node("If", ["c"], ["o"], name="top_if", then_branch=mid, else_branch=mid), H.make_node("Constant", [], ["k"], name="top_const", value=ext("t_top_attr")),
                      H.make_node("f", [], ["fo"], name="call", domain="local"), multi],
                     "g", [H.make_tensor_value_info("c", TP.BOOL, [])], [H.make_tensor_value_info("o", TP.UINT8, [4])], initializer=[ext("t_top_init")])
    m = H.make_model(g, opset_imports=[H.make_opsetid("", 18), H.make_opsetid("local", 1), H.make_opsetid("custom", 1)], functions=[fn], ir_version=10)
    root = tempfile.mkdtemp(prefix="c10a_")
    cwd = os.getcwd()
    name = "load_reaches_all_tensors"
    chk.case(name)
    chk.obligations += 1
    try:
        os.makedirs(os.path.join(root, "work", "models"))
        os.chdir(os.path.join(root, "work"))
        onnx.save(m, "models/m.onnx")
        model = ir.load("models/m.onnx")
        want = os.path.realpath("models")
        found = {}

        def walk_graph(gr):
            for v in gr.initializers.values():
                if isinstance(v.const_value, ir.ExternalTensor):
                    found[v.const_value.name] = v.const_value
            for n in gr:
                for a in n.attributes.values():
                    if a.is_ref():
                        continue
                    if a.type == ir.AttributeType.TENSOR and isinstance(a.value, ir.ExternalTensor):
                        found[a.value.name] = a.value
                    elif a.type == ir.AttributeType.TENSORS:
                        for t in a.value:
                            if isinstance(t, ir.ExternalTensor):
                                found[t.name] = t
                    elif a.type == ir.AttributeType.GRAPH:
                        walk_graph(a.value)
                    elif a.type == ir.AttributeType.GRAPHS:
                        for s_ in a.value:
                            walk_graph(s_)

        walk_graph(model.graph)
        for f in model.functions.values():
            walk_graph(f.graph)
        expected = {"t_top_init", "t_mid_init", "t_deep_init", "t_top_attr", "t_deep_attr", "t_fn_attr", "t_list_attr0", "t_list_attr1"}
        if set(found) != expected:
            chk.note_inconclusive(f"{name}: the harness found external tensors {sorted(found)}, expected {sorted(expected)}")
            return
        bad = {k: str(t.base_dir) for k, t in found.items() if not str(t.base_dir) or os.path.realpath(str(t.base_dir)) != want}
        if bad:
            chk.violation("C10:load:tensor-without-base-dir", f"{name}: after ir.load('models/m.onnx') these external tensors do not carry the model's directory as base directory "
                          f"(an empty base directory switches the containment check off): {bad}", dict(kind="reach", bad=bad))
        else:
            chk.discharged += 1
    finally:
        os.chdir(cwd)
        shutil.rmtree(root, ignore_errors=True)


def validate_dirname():
    n = 0
    for p in ["a", "a/b", "/a", "/", "//a", "a//b", "a/b/", "/a/b/c.onnx", "./m.onnx", "../m.onnx", "m.onnx", "x/../m.onnx", "//", "a/", "///a///b"]:
        want = posixpath.dirname(p)
        tp = z3.String("p")
        res = {}

        def body():
            d = sym_dirname(SStr(tp))
            res["d"] = d
            return zstr(d) == z3.StringVal(want)

        r = explore(body, [tp == z3.StringVal(p)])
        assert r.cex is None and not r.unknown and r.paths >= 1, (p, want, res)
        n += 1
    return n


def ob_load_base_dir(env, maxlen):
    """`_io.load(path)`: every external tensor gets a non-empty base directory for every spelling of
    the path of a file."""
    chk = env.chk
    p = z3.String("model_path")
    alpha_all = z3.Star(z3.Union(_re_alpha(), z3.Re("/")))
    S = z3.StringVal
    assume = [z3.Length(p) >= 1, z3.Length(p) <= maxlen, z3.InRe(p, alpha_all), z3.Not(z3.SuffixOf(S("/"), p)),
              p != S("."), p != S(".."), z3.Not(z3.SuffixOf(S("/."), p)), z3.Not(z3.SuffixOf(S("/.."), p))]
    name = f"load_base_dir[len<={maxlen}]"
    got = {}

    class FakeOnnx:
        @staticmethod
        def load(path, format=None, load_external_data=True):
            return "proto"

    class FakeSerde:
        @staticmethod
        def deserialize_model(proto):
            class F:
                graph = "fg"

            class M:
                graph = "g"
                functions = {("local", "f", ""): F()}

            return M()

    class FakeED:
        _DEFAULT_MAX_IN_FLIGHT_BYTES = 1 << 30
        _DEFAULT_ALIGN_THRESHOLD = 1 << 20

        @staticmethod
        def set_base_dir(graph, base_dir):
            got.setdefault("dirs", []).append(base_dir)   # one call per graph the loader visits (main graph, function bodies)

    def body():
        fos = FakeOS(maxlen + 8)
        load = zsym.rebind(env.io.load, os=fos, onnx=FakeOnnx, serde=FakeSerde, _external_data=FakeED)
        got.clear()
        path = zsym.sym_str(p)
        if zsym.MODEL is not None:
            load = zsym.rebind(env.io.load, onnx=FakeOnnx, serde=FakeSerde, _external_data=FakeED)
        load(path)
        dirs = got.get("dirs")
        if not dirs:
            return False
        if zsym.MODEL is not None:      # concrete replay of the harness body
            dirs = [os.fspath(bd) for bd in dirs]
            want = posixpath.dirname(path) or "."
            return all(bool(bd) and _same_dir_lexically(bd, want) for bd in dirs), dict(base_dir=dirs)
        # the directory that contains the model file: dirname(path), or "." for a bare file name.  Any other string is
        # only acceptable if it denotes the same directory under EVERY symlink layout - decided by the concrete replay.
        d = zstr(sym_dirname(SStr(p)))
        want = z3.If(z3.Length(d) == 0, z3.StringVal("."), d)
        rel = z3.Not(z3.PrefixOf(z3.StringVal("/"), p))
        base_ = z3.SuffixOf(z3.StringVal("/_"), p)     # a file name that cannot collide with a directory component of the witness
        prefer = [[rel, base_, z3.PrefixOf(z3.StringVal("a/../"), p)], [rel, base_, z3.Contains(p, z3.StringVal("a/../"))], [rel, base_, z3.Contains(p, z3.StringVal(".."))],
                  [rel, z3.PrefixOf(z3.StringVal("a/../"), p)], [rel, z3.Contains(p, z3.StringVal("a/../"))], [rel, z3.Contains(p, z3.StringVal(".."))], [rel]]
        return z3.And(*[z3.And(z3.Length(zstr(bd)) > 0, zstr(bd) == want) for bd in dirs]), dict(prefer=prefer)

    # relative spellings first (they are the ones a user types), then absolute ones
    r = explore(body, assume + [z3.Not(z3.PrefixOf(S("/"), p))], small=[z3.Length(p)])
    chk.add_stats(r.stats())
    if r.cex is None and not r.unknown:
        r = explore(body, assume + [z3.PrefixOf(S("/"), p)], small=[z3.Length(p)])
        chk.add_stats(r.stats())
    chk.case(name)
    if r.unknown:
        chk.note_inconclusive(f"{name}: unknown")
    if r.cex is not None:
        model = r.cex[0]
        pv = zsym.model_str(model, p)
        bad, detail = replay_load(pv)
        conc = dict(kind="load", path=pv)
        if bad:
            chk.violation("C10:load:empty_base_dir", f"{name}: {detail}", conc)
        else:
            bad2, detail2 = replay_load_dir(pv)
            if bad2:
                chk.violation("C10:load:wrong_base_dir", f"{name}: {detail2}", dict(kind="load_dir", path=pv))
            else:
                chk.note_inconclusive(f"{name}: model path {pv!r} did not reproduce ({detail}; {detail2})")


def _same_dir_lexically(a, b):
    """equal after dropping empty and '.' components (sound under every symlink layout; '..' is NOT collapsed)"""
    ca = [c for c in a.split("/") if c not in ("", ".")]
    cb = [c for c in b.split("/") if c not in ("", ".")]
    return ca == cb and a.startswith("/") == b.startswith("/")


def replay_load_dir(path):
    """Real directories in which every component that is followed by '..' is a symlink into another tree: the base
    directory handed to external tensors must resolve to the directory that really contains the model file."""
    import onnx
    import onnx_ir as ir

    root = tempfile.mkdtemp(prefix="c10d_")
    cwd = os.getcwd()
    try:
        work = os.path.join(root, "work")
        os.makedirs(work)
        os.chdir(work)
        rel = path
        if os.path.isabs(rel):
            rel = root + "/abs" + path       # the same component structure under a private root
            os.makedirs(root + "/abs", exist_ok=True)
        comps = os.path.dirname(rel).split("/") if os.path.dirname(rel) else []
        cur = (root + "/abs") if os.path.isabs(rel) else "."
        if os.path.isabs(rel):
            comps = os.path.dirname(path).split("/")
        n = 0
        for i, c in enumerate(comps):
            if c in ("", "."):
                continue
            nxt = os.path.join(cur, c)
            if c == "..":
                cur = nxt
                continue
            follows_dotdot = i + 1 < len(comps) and comps[i + 1] == ".."
            if not os.path.lexists(nxt):
                if follows_dotdot:
                    n += 1
                    target = os.path.join(root, "elsewhere", f"n{n}", "inner")
                    os.makedirs(target)
                    os.symlink(target, nxt)
                else:
                    os.makedirs(nxt, exist_ok=True)
            cur = nxt
        t = onnx.TensorProto(name="w", data_type=onnx.TensorProto.UINT8, dims=[4], data_location=onnx.TensorProto.EXTERNAL)
        for k, v in (("location", "w.bin"), ("offset", "0"), ("length", "4")):
            e = t.external_data.add()
            e.key, e.value = k, v
        m = onnx.helper.make_model(onnx.helper.make_graph([], "g", [], [], initializer=[t]))
        try:
            onnx.save(m, rel)
        except OSError as e:
            return False, f"cannot create the model file: {e}"
        true_dir = os.path.realpath(os.path.dirname(rel) or ".")
        model = ir.load(rel)
        base = model.graph.initializers["w"].const_value.base_dir
        got = os.path.realpath(base)
        if got != true_dir:
            return True, f"ir.load({rel!r}) gave base_dir={str(base)!r}, which resolves to {got.replace(root, '<root>')} while the model file lives in {true_dir.replace(root, '<root>')} (component before '..' is a symlink)"
        return False, f"base_dir={str(base)!r} resolves to the model's directory"
    finally:
        os.chdir(cwd)
        shutil.rmtree(root, ignore_errors=True)


def replay_load(path):
    """Real files: a model saved under `path` (relative to a temp cwd) whose external tensor points
    outside the model directory must be refused when read."""
    import numpy as np
    import onnx
    import onnx_ir as ir

    root = tempfile.mkdtemp(prefix="c10l_")
    cwd = os.getcwd()
    try:
        work = os.path.join(root, "work", "deep")
        os.makedirs(work)
        os.chdir(work)
        if os.path.isabs(path):
            path = root + path
        d = os.path.dirname(path)
        if d:
            os.makedirs(d, exist_ok=True)
        model_dir = os.path.abspath(d or ".")
        outside = os.path.join(os.path.dirname(model_dir), "outside.bin")
        with open(outside, "wb") as f:
            f.write(b"SECRET!!")
        t = onnx.TensorProto(name="w", data_type=onnx.TensorProto.UINT8, dims=[8], data_location=onnx.TensorProto.EXTERNAL)
        for k, v in (("location", "../outside.bin"), ("offset", "0"), ("length", "8")):
            e = t.external_data.add()
            e.key, e.value = k, v
        g = onnx.helper.make_graph([], "g", [], [], initializer=[t])
        m = onnx.helper.make_model(g)
        onnx.save(m, path)
        model = ir.load(path)
        tensor = model.graph.initializers["w"].const_value
        base = tensor.base_dir
        try:
            data = tensor.tobytes()
        except ValueError:
            return False, f"rejected (base_dir={base!r})"
        return True, f"ir.load({path!r}) gave base_dir={base!r}; location '../outside.bin' was read: {data!r}"
    finally:
        os.chdir(cwd)
        shutil.rmtree(root, ignore_errors=True)


def run(chk, tier):
    env = Env(chk)
    quick = tier == "quick"
    chk.fn("_core.ExternalTensor._check_path_containment", "_core.ExternalTensor.path", "_core.ExternalTensor._load",
           "_core.ExternalTensor.numpy/tobytes/tofile/__array__", "_io.load")
    chk.assume(
        "os.path.abspath∘normpath and os.path.realpath return ARBITRARY canonical absolute paths (z3 strings matching '/' | ('/' comp)+, comp not in {'', '.', '..'}); equal arguments give equal results",
        "os.stat / os.lstat: per path an arbitrary link count >= 1 or FileNotFoundError (uninterpreted functions of the path string), with the contract stat(p) = stat(realpath(p)) and lstat(p) = stat(p) unless p is reached through a symlink",
        "os.path.join: transcription of posixpath.join; os.path.dirname: z3 transcription validated against posixpath.dirname; os.path.normcase: identity (POSIX)",
        "strings range over the alphabet {a, b, _, ., /} up to the stated length (z3 sequence theory, no enumeration)",
        "model paths given to load() name a file (do not end in '/', last component is not '.' or '..')",
    )
    chk.not_decided += [
        "that CPython's normpath/realpath and the kernel implement their contracts (symlink/hard-link resolution is the stub's contract)",
        "Windows path semantics (normcase, drive letters, backslashes)",
        "a base directory changed after the first successful load",
    ]
    chk.validation.append(f"sym_dirname vs posixpath.dirname: {validate_dirname()} concrete paths")
    chk.validation.append(f"FakePath.join vs posixpath.join: {_validate_join()} concrete pairs")
    L = 8 if quick else 14
    chk.bounds = dict(string_length=f"<= {L} (base_dir, location, model path); canonical results <= {L}+",
                      alphabet=ALPHA + "/")
    ob_containment(env, L)
    ob_entry_points(env)
    ob_repeated_reads(env)
    # z3's sequence solver answers `unknown` for the load obligation beyond 10 characters (probed: 10 decides, 12 does not)
    L_load = min(L, 10)
    chk.bounds["string_length_load"] = f"<= {L_load} (model path of the load obligation)"
    ob_load_base_dir(env, L_load)
    ob_load_reaches_all_tensors(env)
    # anchor of the symbolic model in the real kernel: one escaping layout per layer (file symlink, symlinked directory, hard
    # link, '..', absolute location) on a real directory tree must be refused by every read entry point (concrete)
    chk.case("real-tree escaping layouts")
    chk.obligations += 1
    leaks = attack_layouts()
    if leaks:
        chk.violation("C10:real-tree:escaping-layout-read", f"on a real directory tree these escaping locations were read: {leaks}", dict(kind="layouts", leaks=leaks))
    else:
        chk.discharged += 1
    chk.extra["rule"] = "one case per obligation (containment / each entry point / load base dir); each decided for all strings within the length bound"


def _validate_join():
    n = 0
    for a in ["", "/", "a", "a/", "/a", "/a/b/", "a//"]:
        for b in ["x", "/x", "../x", "./x", "x/", ""]:
            if not b:
                continue
            ta, tb = z3.String("ja"), z3.String("jb")
            fos = FakeOS(20)

            def body():
                return zstr(fos.path.join(SStr(ta), SStr(tb))) == z3.StringVal(posixpath.join(a, b))

            r = explore(body, [ta == z3.StringVal(a), tb == z3.StringVal(b)])
            assert r.cex is None and not r.unknown, (a, b)
            n += 1
    return n


def replay(rec):
    if rec.get("kind") == "layouts":
        return bool(attack_layouts())
    if rec.get("kind") == "reach":
        return True
    if rec.get("kind") == "load_dir":
        bad, detail = replay_load_dir(rec["path"])
    elif rec.get("kind") == "repeated":
        bad, detail = replay_repeated(rec["first"], rec["second"])
    elif rec.get("kind") == "load":
        bad, detail = replay_load(rec["path"])
    elif rec.get("kind") == "containment":
        bad, detail = realise_and_read(rec)
    else:
        return True
    print(detail)
    return bad
