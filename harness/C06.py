"""C06 — a rejected edit leaves every IR object exactly as it was.

History driver on zsym.  The last step of every history is an arbitrary public mutator with
symbolic operands (including the position of the offending element in multi-element arguments);
if it raises, the snapshot S(U) of every public accessor of every reachable object must equal the
snapshot taken before the call.
"""
from __future__ import annotations

import operator

from engine import hist, irlib

LEVEL = "other"
TECHNIQUE = "symbolic execution (zsym, z3) of bounded edit histories over the real IR classes; post-condition: a raising call leaves the full public snapshot S(U) unchanged; each path's witness re-executed natively"

RANGES = dict(gi=(0, 1), a=(0, 8), b=(-2, 4), c=(-1, 3), d=(0, 12))
RANGES_FINAL_K2 = dict(gi=(0, 1), a=(0, 4), b=(-1, 2), c=(-1, 1), d=(0, 3))   # the rejected call after a prefix step
K2_STRIDE = 8
RANGES_PREFIX = dict(gi=(0, 1), a=(0, 5), b=(-1, 2), c=(-1, 1), d=(0, 3))


def _diff(s0, s1):
    out = []
    for k in sorted(set(s0) | set(s1), key=repr):
        if s0.get(k) != s1.get(k):
            out.append(f"{k}: {s0.get(k)!r} -> {s1.get(k)!r}"[:240])
    return out


def body_for(seed, prefix_ops, last_op):
    def body(P):
        st = irlib.seed(seed)
        names, raised = [], []
        for i, op in enumerate(prefix_ops):
            op = operator.index(op if op is not None else P[f"o{i}"])
            names.append(irlib.OPS[op])
            raised.append(irlib.apply(st, op, P[f"gi{i}"], P[f"a{i}"], P[f"b{i}"], P[f"c{i}"], P[f"d{i}"]))
        k = len(prefix_ops)
        before = irlib.snapshot(st)
        names.append(irlib.OPS[last_op])
        r = irlib.apply(st, last_op, P[f"gi{k}"], P[f"a{k}"], P[f"b{k}"], P[f"c{k}"], P[f"d{k}"])
        raised.append(r)
        if r is None:
            return True, dict(ops=names, raised=raised, changed=[])
        after = irlib.snapshot(st)
        changed = _diff(before, after)
        return (not changed), dict(ops=names, raised=raised, changed=changed[:5])

    return body


def make_case(tier, key):
    if key[0] == "k1":
        _, seed, op = key
        ranges = {f"{p}0": r for p, r in RANGES.items()}
        return hist.Case(f"k1[seed {seed}: {irlib.OPS[op]} raises]", ranges, body_for(seed, [], op), meta=_meta())
    _, seed, pre, op = key
    ranges = {f"{p}0": r for p, r in RANGES_PREFIX.items()}
    ranges.update({f"{p}1": r for p, r in RANGES_FINAL_K2.items()})
    return hist.Case(f"k2[seed {seed}: {irlib.OPS[pre]} ; {irlib.OPS[op]} raises]", ranges, body_for(seed, [pre], op), meta=_meta())


def _meta():
    def sig(args, obs):
        kinds = sorted({c.split(":")[0].strip("(' ")[:1] for c in obs["changed"]})
        return f"C06:{obs['ops'][-1]}:{obs['raised'][-1]}"

    def describe(args, obs):
        return f"{obs['ops']} with {args} raised {obs['raised'][-1]} but changed: " + " | ".join(obs["changed"][:3])

    return dict(sig=sig, describe=describe)


# prefixes that create interesting pre-states for a following rejected call
PREFIXES = ["n.replace_input_with", "out.append", "in.append", "init.setitem", "g.remove", "v.rename", "Node()", "g.append"]


def keys_for(tier):
    keys = [("k1", s, o) for s in range(irlib.N_SEEDS) for o in range(irlib.N_OPS)]
    if tier == "thorough":
        pres = [irlib.OPS.index(p) for p in PREFIXES]
        # (seed, prefix, final operation) triples with (seed + prefix index + operation) % K2_STRIDE == 0: every final operation meets
        # 10 (seed, prefix) pairs
        keys += [("k2", s, p, o) for s in range(irlib.N_SEEDS) for i, p in enumerate(pres) for o in range(irlib.N_OPS) if (s + i + o) % K2_STRIDE == 0]
    return keys


def run(chk, tier):
    chk.fn("_core.Node.__init__/replace_input_with/resize_inputs/resize_outputs/prepend/append", "_core.Value.replace_all_uses_with/name setter",
           "_core.Graph.append/extend/insert_before/insert_after/remove/sort/register_initializer",
           "_graph_containers.GraphInputs/GraphOutputs/GraphInitializers (every mutator)", "_linked_list.DoublyLinkedSet",
           "_convenience.replace_all_uses_with/rename_values")
    chk.assume(
        f"operand selectors and payload ints are symbolic integers constrained to {RANGES} (prefix step: {RANGES_PREFIX})",
        "a call 'raises' when it raises ValueError/IndexError/TypeError/KeyError/RuntimeError/AttributeError/AssertionError",
        "the snapshot is taken through public accessors only (names, connections, uses, ownership flags, collections, types, shapes, constant tensors, node order)",
        "every explored path is re-executed natively with the path's witness and must give the same observation",
    )
    chk.bounds = dict(history="the raising call alone from every seed" + (f"; plus one prefix step from {PREFIXES}, for the (seed, prefix, operation) triples with (seed + prefix index + operation) % {K2_STRIDE} == 0, final-call parameters {RANGES_FINAL_K2}" if tier == "thorough" else ""),
                      seeds=irlib.N_SEEDS, operations=irlib.N_OPS)
    chk.not_decided += ["pre-states only reachable by longer histories", "name-authority internals that are not observable through public accessors"]
    hist.run_cases(chk, "harness.C06", "make_case", keys_for(tier))
    chk.extra["rule"] = "one case per (seed state[, prefix operation], final operation); all feasible paths of the operand/payload parameters; only raising paths carry an obligation"


def replay(rec):
    case = make_case("quick", tuple(rec["key"]))
    ok, obs = case.body(dict(rec["args"]))
    print(obs)
    return not ok
