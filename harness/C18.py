"""C18 — region extraction and capture analysis are exact.

History driver on zsym + EUF translation validation.

* Sources: main graphs of the shared model family, a model-local function, a graph view, and a nested
  family whose CAPTURES are symbolic (every body node picks each of its inputs, by a symbolic selector,
  among all values visible at that point - outer scopes two levels up included).
* Symbolic cut: a bit mask over the scope's values chooses the boundary inputs, two selectors choose the
  outputs, a flag passes them by name instead of by object, another flag shuffles the input order.
* Oracles: the result shares no graph/node/value with the source; its nodes are exactly the backward
  slice computed by an independent definition (producers + values captured by nested bodies, stopping at
  the chosen inputs), in source order; every initializer the slice needs is present with the same bytes;
  an uncovered non-initializer requirement raises ValueError (and only then); and - EUF, z3 - with the
  result's inputs bound to the source's boundary values its outputs are EQUAL to the source's values at
  the chosen outputs for all inputs and all operator semantics.
* analyze_implicit_usage is compared, for every nested graph at every depth, with the brute-force set
  "values used by nodes in or below the graph whose defining graph is neither it nor nested in it".
"""
from __future__ import annotations

import operator

from engine import euf, hist, models, zsym

LEVEL = "translation_validation"
TECHNIQUE = ("symbolic execution (zsym/z3) of convenience.extract / analyze_implicit_usage over sources with symbolic captures and symbolic cuts; "
             "reference backward slice + EUF equivalence (z3) of the extracted graph with the source region; per-path native re-execution")

NBITS = {"quick": 8, "thorough": 11}
SOURCES = ["dup_add", "identity", "dup_initializers", "if_capture", "nested_if", "loop", "init_inputs", "alias_outputs", "multi_output",
           "fn:functions:outer", "fn:functions:scale", "view:if_capture", "view:dup_add", "viewperm:dup_add", "viewperm:multi_output", "viewsorted:unsorted"]


# ---------------------------------------------------------------------------------------------
# helpers over public accessors


def nested_graphs(node):
    import onnx_ir as ir

    for a in node.attributes.values():
        if a.type == ir.AttributeType.GRAPH:
            yield a.value
        elif a.type == ir.AttributeType.GRAPHS:
            yield from a.value


def all_graphs_below(g):
    """g's nested graphs at every depth (not g itself)"""
    for n in g:
        for s in nested_graphs(n):
            yield s
            yield from all_graphs_below(s)


def defined_in(g):
    ids = {id(v) for v in g.inputs} | {id(v) for v in g.initializers.values()}
    for n in g:
        ids |= {id(o) for o in n.outputs}
    return ids


def used_in_or_below(g):
    vals = {}
    for n in g:
        for v in n.inputs:
            if v is not None:
                vals[id(v)] = v
        for s in nested_graphs(n):
            vals.update(used_in_or_below(s))
    return vals


def captured_by(g):
    """values used in or below g that are defined neither in g nor in a graph nested in g"""
    inner = set(defined_in(g))
    for s in all_graphs_below(g):
        inner |= defined_in(s)
    return {i: v for i, v in used_in_or_below(g).items() if i not in inner}


def scope_values(g):
    out, seen = [], set()
    for v in list(g.inputs) + list(g.initializers.values()) + [o for n in g for o in n.outputs]:
        if id(v) not in seen:
            seen.add(id(v))
            out.append(v)
    return out


def reference_slice(g, inputs, outputs):
    """(needed nodes in source order, needed initializers, uncovered requirements)"""
    stop = {id(v) for v in inputs}
    here = {id(n) for n in g}
    needed_nodes, inits, uncovered = set(), {}, {}
    seen = set()
    work = list(outputs)
    while work:
        v = work.pop()
        if v is None or id(v) in seen or id(v) in stop:
            continue
        seen.add(id(v))
        p = v.producer()
        if p is not None and id(p) in here:
            if id(p) not in needed_nodes:
                needed_nodes.add(id(p))
                work.extend(x for x in p.inputs if x is not None)
                for s in nested_graphs(p):
                    work.extend(captured_by(s).values())
        elif v.is_initializer():
            inits[id(v)] = v
        else:
            uncovered[id(v)] = v
    return [n for n in g if id(n) in needed_nodes], inits, uncovered


def universe_ids(g):
    ids = {id(g)}
    for v in list(g.inputs) + list(g.outputs) + list(g.initializers.values()):
        ids.add(id(v))
    for n in g:
        ids.add(id(n))
        ids |= {id(o) for o in n.outputs}
        ids |= {id(i) for i in n.inputs if i is not None}
        for s in nested_graphs(n):
            ids |= universe_ids(s)
    return ids


# ---------------------------------------------------------------------------------------------
# sources


def source(key, P=None):
    """(graph-like handed to extract, the graph whose scope the cut is chosen from, model)"""
    import onnx_ir as ir

    if key.startswith("fn:"):
        _, mname, fname = key.split(":")
        m = models.build(mname)
        fn = [f for f in m.functions.values() if f.name == fname][0]
        return fn, fn.graph, m
    if key.startswith("view:"):
        m = models.build(key[5:])
        g = m.graph
        view = ir.GraphView(list(g.inputs), list(g.outputs), nodes=list(g), initializers=list(g.initializers.values()), name=g.name, opset_imports=g.opset_imports)
        return view, g, m
    if key.startswith("viewperm:"):
        # a view that lists the nodes of its graph in ANOTHER (still topological) order: the result follows the view
        m = models.build(key[9:])
        g = m.graph
        nodes = list(g)
        order = nodes[:]
        for i in range(len(order) - 1):
            a_, b_ = order[i], order[i + 1]
            if not any(v is not None and v.producer() is a_ for v in b_.inputs):
                order[i], order[i + 1] = b_, a_
                break
        view = ir.GraphView(list(g.inputs), list(g.outputs), nodes=order, initializers=list(g.initializers.values()), name=g.name, opset_imports=g.opset_imports)
        return view, g, m
    if key.startswith("viewsorted:"):
        # a topologically ordered view of a graph that is stored out of order
        m = models.build(key[11:])
        g = m.graph
        order, placed = [], set()
        pending = list(g)
        while pending:
            for n in pending:
                if all(v is None or v.producer() is None or id(v.producer()) in placed or v.producer() not in pending for v in n.inputs):
                    order.append(n)
                    placed.add(id(n))
                    pending.remove(n)
                    break
            else:
                order.extend(pending)
                break
        view = ir.GraphView(list(g.inputs), list(g.outputs), nodes=order, initializers=list(g.initializers.values()), name=g.name, opset_imports=g.opset_imports)
        return view, g, m
    if key == "symbolic-captures":
        m = build_symbolic(P)
        return m.graph, m.graph, m
    m = models.build(key)
    return m.graph, m.graph, m


def build_symbolic(P):
    """main: x0, x1, w -> a, b ; If(then: t1, t2 ; else: e1, inner If(then: i1 ; else: i2)) -> c.
    One input of each of four body nodes (depth 1 and 2) is selected symbolically among x1, a, b, d of the main scope."""
    import numpy as np

    import onnx_ir as ir

    fv, nd = models.fval, models.node
    x0, x1 = fv("x0"), fv("x1")
    cond = ir.val("cond", ir.DataType.BOOL, [])
    w = models.const("w", models.arr(1))
    a = nd("Add", [x0, w], name="a")
    b = nd("Mul", [a.outputs[0], x1], name="b")
    d = nd("Neg", [x1], name="d")
    outer = [x0, x1, w, a.outputs[0], b.outputs[0], d.outputs[0]]

    cands = [x1, a.outputs[0], b.outputs[0], d.outputs[0]]

    def pick(sel):
        return cands[operator.index(sel)]

    tw = models.const("tw", models.arr(2))
    t1 = nd("Add", [pick(P["t1a"]), tw], name="t1")
    t2 = nd("Mul", [x0, t1.outputs[0]], name="t2")
    then_g = ir.Graph([], [t2.outputs[0]], nodes=[t1, t2], initializers=[tw], name="then_g")
    e1 = nd("Sub", [pick(P["e1a"]), w], name="e1")
    i1 = nd("Add", [pick(P["i1a"]), e1.outputs[0]], name="i1")
    inner_then = ir.Graph([], [i1.outputs[0]], nodes=[i1], name="inner_then")
    i2 = nd("Sub", [pick(P["i2a"]), x0], name="i2")
    inner_else = ir.Graph([], [i2.outputs[0]], nodes=[i2], name="inner_else")
    inner_if = nd("If", [cond], {"then_branch": inner_then, "else_branch": inner_else}, name="inner_if")
    else_g = ir.Graph([], [inner_if.outputs[0]], nodes=[e1, inner_if], name="else_g")
    iff = nd("If", [cond], {"then_branch": then_g, "else_branch": else_g}, name="iff")
    # a node carrying a LIST of bodies (GRAPHS attribute), each capturing a symbolic outer value
    g1 = nd("Abs", [pick(P["g1a"])], name="g1")
    body1 = ir.Graph([], [g1.outputs[0]], nodes=[g1], name="body1")
    g2 = nd("Neg", [pick(P["g2a"])], name="g2")
    body2 = ir.Graph([], [g2.outputs[0]], nodes=[g2], name="body2")
    multi = ir.Node("custom", "Branches", [cond], [ir.AttrGraphs("branches", [body1, body2])], num_outputs=1, name="multi")
    multi.outputs[0].name = "multi_o0"
    multi.outputs[0].type = ir.TensorType(models.F)
    c = nd("Add", [iff.outputs[0], multi.outputs[0]], name="c")
    g = ir.Graph([x0, x1, cond], [c.outputs[0], d.outputs[0]], nodes=[a, b, d, multi, iff, c], initializers=[w], opset_imports={"": models.OPSET, "custom": 1}, name="sym")
    return ir.Model(g, ir_version=10)


SYM_RANGES = dict(t1a=(0, 3), e1a=(0, 3), i1a=(0, 3), i2a=(0, 3), g1a=(0, 3), g2a=(0, 3))


# ---------------------------------------------------------------------------------------------


def check_extract(key, P):
    import onnx_ir as ir
    from onnx_ir import convenience

    graph_like, g, m = source(key, P)
    vals = scope_values(g)
    k = len(vals)
    problems = []
    ins = [v for i, v in enumerate(vals) if f"i{i}" in P and operator.index(P[f"i{i}"])]
    o1 = operator.index(P["o1"])
    if o1 >= k:
        return True, dict(problems=[], skipped="selector beyond the scope")
    o2 = [-1, (o1 + 1) % k, (o1 + 3) % k, (o1 + k - 1) % k][operator.index(P["o2sel"])]
    mode = operator.index(P["mode"])
    if mode == 2:
        ins = ins[::-1]
    outs = [vals[o1]] + ([vals[o2]] if o2 >= 0 and o2 != o1 else [])
    byname = mode == 1
    if byname and any(v.name in (None, "") for v in ins + outs):
        return True, dict(problems=[], skipped="unnamed value")
    ref_nodes, ref_inits, uncovered = reference_slice(g, ins, outs)
    src_order = {id(n): i for i, n in enumerate(graph_like)}
    if all(id(n) in src_order for n in ref_nodes):
        ref_nodes = sorted(ref_nodes, key=lambda n: src_order[id(n)])    # "original order" = the order in which the source lists its nodes
    src_ids = universe_ids(g)
    arg_in = [v.name for v in ins] if byname else list(ins)
    arg_out = [v.name for v in outs] if byname else list(outs)
    obs = dict(inputs=[v.name for v in ins], outputs=[v.name for v in outs], byname=byname)
    try:
        res = convenience.extract(graph_like, arg_in, arg_out)
    except Exception as e:  # noqa: BLE001   (the property says "raises"; the documented type is ValueError)
        if not uncovered:
            problems.append(f"raised {type(e).__name__} although every requirement is covered: {str(e)[:120]}")
        return (not problems), dict(problems=problems, raised=True, **obs)
    if uncovered:
        problems.append(f"uncovered requirement {[v.name for v in uncovered.values()]} did not raise")
        return False, dict(problems=problems, raised=False, **obs)
    # independence
    shared = universe_ids(res) & src_ids
    if shared:
        problems.append(f"the result shares {len(shared)} object(s) with the source")
    # exactly the needed nodes, in source order
    got = [(n.name, n.op_type) for n in res]
    want = [(n.name, n.op_type) for n in ref_nodes]
    if got != want:
        problems.append(f"nodes {[x[0] for x in got]} but the region needs exactly {[x[0] for x in want]}")
    # inputs / outputs
    if [v.name for v in res.inputs] != [v.name for v in ins]:
        problems.append(f"result inputs {[v.name for v in res.inputs]} are not the boundary inputs {[v.name for v in ins]}")
    if [v.name for v in res.outputs] != [v.name for v in outs]:
        problems.append(f"result outputs {[v.name for v in res.outputs]} are not the requested outputs")
    # needed initializers present with the same bytes
    for v in ref_inits.values():
        r = res.initializers.get(v.name)
        if r is None or r.const_value is None or (v.const_value is not None and bytes(r.const_value.tobytes()) != bytes(v.const_value.tobytes())):
            problems.append(f"needed initializer {v.name!r} is missing from the result (or has other bytes)")
    if problems:
        return False, dict(problems=problems, raised=False, **obs)
    # EUF: evaluated on the SOURCE's values at the boundary inputs, the result yields the source's values at the outputs
    u = euf.Universe()
    functions = m.functions
    ops = dict(m.opset_imports)
    ops.update(getattr(g, "opset_imports", {}) or {})
    enc_s = euf.Encoder(u, None, functions=functions, opset_imports=ops)
    env = {id(v): u.const(f"in{j}") for j, v in enumerate(g.inputs) if not (v.is_initializer() and v.const_value is not None)}
    t_src = enc_s._activation(env, ops)
    try:
        src_terms = [t_src(v) for v in outs]
        boundary = [t_src(v) for v in ins]
        enc_r = euf.Encoder(u, None, functions=functions, opset_imports=ops)
        renv = {id(v): boundary[j] for j, v in enumerate(res.inputs)}
        t_res = enc_r._activation(renv, ops)
        res_terms = [t_res(v) for v in res.outputs]
    except euf.EncodingError as e:
        return True, dict(problems=[], skipped=f"not encodable: {e}", **obs)
    r, idx, _dt = euf.equivalent(u, src_terms, res_terms)
    if r == "sat":
        problems.append(f"extracted graph computes something else at output {idx}: source {str(src_terms[idx])[:120]} | extracted {str(res_terms[idx])[:120]}")
    elif r != "unsat":
        raise zsym.Unsupported(f"EUF query answered {r}")
    return (not problems), dict(problems=problems, raised=False, **obs)


def check_implicit(key, P):
    from onnx_ir import analysis

    _gl, g, _m = source(key, P)
    problems = []
    got = analysis.analyze_implicit_usage(g)
    subs = list(all_graphs_below(g))
    if {id(s) for s in got} != {id(s) for s in subs}:
        problems.append(f"analysis reports {sorted(s.name for s in got)} but the nested graphs are {sorted(s.name for s in subs)}")
    for s in subs:
        want = {v.name for v in captured_by(s).values()}
        have = {v.name for v in got.get(s, set())}
        if want != have:
            problems.append(f"captures of {s.name}: reported {sorted(have)} but it (or deeper graphs) uses {sorted(want)} from outside")
    return (not problems), dict(problems=problems)


def make_case(tier, key):
    models.INFER_SHAPES = False
    kind, src = key[0], key[1]
    ranges = {}
    if src == "symbolic-captures":
        ranges.update(SYM_RANGES)
    if kind == "extract":
        _gl, g, _m = source(src, {k: 0 for k in SYM_RANGES})
        k = len(scope_values(g))
        nb = min(k, NBITS[tier])
        for i in range(nb):
            ranges[f"i{i}"] = (0, 1)
        ranges.update(o1=(key[2], key[2]), o2sel=(0, 3 if tier == "thorough" else 2), mode=(0, 2))
        if src == "symbolic-captures":
            # captures symbolic: restrict the cut to keep the product small
            for i in (0, 2, 6, 7, 8, 9, 10):     # boundary candidates: x1, w, a, b (scope order x0, x1, cond, w, a, b, d, multi, iff, c)
                if f"i{i}" in ranges:
                    ranges[f"i{i}"] = (0, 0)
            ranges.update(g1a=(0, 1), g2a=(2, 3), i2a=(0, 1))
            ranges.update(o2sel=(0, 0), mode=(0, 0))

        def body(P):
            return check_extract(src, P)
    else:
        def body(P):
            return check_implicit(src, P)

    def sig(args, obs):
        return f"C18:{kind}:" + (obs["problems"][0].split(":")[0][:50] if obs["problems"] else "?").split(" [")[0]

    def describe(args, obs):
        return f"{kind} on source {src} {args} (inputs {obs.get('inputs')}, outputs {obs.get('outputs')}): " + "; ".join(obs["problems"][:3])

    return hist.Case(f"{kind}[{':'.join(str(x) for x in key[1:])}]", ranges, body, meta=dict(sig=sig, describe=describe))


def keys_for(tier):
    keys = []
    for s in SOURCES:
        _gl, g, _m = source(s)
        k = len(scope_values(g))
        for o1 in range(k):
            keys.append(("extract", s, o1))
        if not s.startswith(("fn:", "view")):
            keys.append(("implicit", s))
    # symbolic captures: one shard per output selector
    for o1 in (5, 6, 7, 8, 9):
        keys.append(("extract", "symbolic-captures", o1))
    keys.append(("implicit", "symbolic-captures"))
    return keys


def run(chk, tier):
    chk.fn("_convenience._extractor.extract/_find_subgraph_bounded_by_values/_collect_all_external_values", "analysis._implicit_usage.analyze_implicit_usage/_process_node/_collect_implicit_usages",
           "_core.GraphView.clone", "_cloner.Cloner", "convenience.create_value_mapping")
    chk.assume(
        "cut = one symbolic bit per scope value (first 8 quick / 11 thorough) selecting the boundary inputs, a first output per case and a symbolic second output (none / 2-3 neighbours), symbolic mode (by object / by name / reversed input order)",
        "source graphs are topologically ordered (the cloner documents that it resolves values in node order; extracting from an unsorted graph raises RuntimeError from clone_graph)",
        "symbolic-captures family: every body node input is selected symbolically among the values visible at that point (all enclosing scopes)",
        "EUF encoding as in C05 (operators uninterpreted, Identity/functions interpreted, bodies alpha-canonical); the result's inputs are bound to the source's boundary values",
        "tensors may be shared between source and result (immutable payload)",
        "every explored path is re-executed natively with the path's witness and must give the same observation",
    )
    chk.bounds = dict(sources=SOURCES + ["symbolic-captures"], cut=f"inputs: all subsets of the first {NBITS[tier]} scope values; outputs: every value as first output, optional second output", captures=SYM_RANGES)
    chk.not_decided += ["extraction from a nested body as the source graph", "more than two boundary outputs", "numeric evaluation (abstracted by EUF - stronger)"]
    import logging

    logging.disable(logging.CRITICAL)
    models.INFER_SHAPES = False
    hist.run_cases(chk, "harness.C18", "make_case", keys_for(tier))
    chk.extra["rule"] = "one case per (source, first output selector) for extraction and per source for the capture analysis; masks/selectors/captures symbolic"


def replay(rec):
    case = make_case("quick", tuple(rec["key"]))
    ok, obs = case.body(dict(rec["args"]))
    print(obs)
    return not ok
