"""C17 — deserializing any proto terminates with an error or a consistent IR.

History driver on zsym over MALFORMED protos built directly with protobuf.  Each case is a template
whose slots are symbolic integers:

* names     - every name slot of a two-scope graph (graph inputs/outputs, initializer, node inputs and
              outputs, the body of an If, a function) is chosen from the pool {"", "a", "b", "c"}: dangling,
              duplicated, empty and shadowing names, cyclic and unsorted orders arise from equal choices;
* enums     - tensor data_type, value-info elem_type, attribute type, data_location take valid, undefined and
              unknown numbers; declared attribute types mismatch the populated field;
* tensors   - dims vs payload length, several storage fields at once, negative dims, absurd external-data
              entries (absolute / parent paths, negative and non-numeric offset/length, unknown and repeated keys);
* structure - missing graph / op_type / branches, duplicate and recursive functions, reference attributes in
              the main graph, duplicate opset imports, IR versions 0 / negative / far future.

Oracle on every path: `from_proto` returns or raises an Exception within the time limit; on return the
C01 invariant I(U) holds for everything reachable from the model, and every produced value is owned by its
producer's graph (the documented meaning of Value.graph); reading name/dtype/shape/size of every
tensor and the whole deserialization perform NO file access (audit hook + os.stat/lstat/readlink
wrappers); `to_proto` of the result raises or yields p' with to_proto(from_proto(p')) == p'.
"""
from __future__ import annotations

import operator
import os
import signal
import sys

from engine import hist, irlib

LEVEL = "other"
TECHNIQUE = ("symbolic execution (zsym/z3) of from_proto over malformed protos whose name / enum / tensor-field / structure slots are symbolic; oracles: termination, "
             "exception-or-consistent IR (C01 invariant), no file access, serialization fixpoint; per-path native re-execution")

POOL = ["", "a", "b", "c"]

# ---------------------------------------------------------------------------------------------
# file-access recorder

_REC = {"on": False, "events": []}
_HOOKED = [False]


def _own_source(a):
    """the interpreter reading Python source / libraries (tracebacks, linecache, imports) is not data access"""
    try:
        a = os.fspath(a)
        a = a.decode() if isinstance(a, bytes) else a
    except TypeError:
        return False
    return a.endswith((".py", ".pyc", ".so", ".pth")) or "/site-packages/" in a or a.startswith((sys.prefix, sys.base_prefix, "/usr/lib/python", "/proc/", "/repo/src", "/verif/"))


def _audit(event, args):
    if _REC["on"] and event in ("open", "os.listdir", "os.scandir", "mmap.__new__", "os.open"):
        a = args[0] if args else None
        if event == "mmap.__new__" or (isinstance(a, (str, bytes, os.PathLike)) and not _own_source(a)):
            _REC["events"].append(f"{event}({a!r})")


class Recorder:
    def __enter__(self):
        if not _HOOKED[0]:
            sys.addaudithook(_audit)
            _HOOKED[0] = True
        self.saved = {k: getattr(os, k) for k in ("stat", "lstat", "readlink")}

        def wrap(name, f):
            def g(*a, **k):
                if _REC["on"] and not (a and isinstance(a[0], (str, bytes, os.PathLike)) and _own_source(a[0])):
                    _REC["events"].append(f"os.{name}({a[0]!r})")
                return f(*a, **k)

            return g

        for k, f in self.saved.items():
            setattr(os, k, wrap(k, f))
        _REC["events"] = []
        _REC["on"] = True
        return self

    def __exit__(self, *a):
        _REC["on"] = False
        for k, f in self.saved.items():
            setattr(os, k, f)
        return False

    @property
    def events(self):
        return list(_REC["events"])


class _Timeout(Exception):
    pass


def _alarm(signum, frame):
    raise _Timeout()


# ---------------------------------------------------------------------------------------------
# templates


def t_names_main(P):
    import onnx
    from onnx import TensorProto as TP
    from onnx import helper as H

    nm = lambda k: POOL[operator.index(P[k])]  # noqa: E731
    n0 = H.make_node("Add", [nm("n0i0"), nm("n0i1")], [nm("n0o0")], name="n0")
    n1 = H.make_node("Split", [nm("n1i0")], [nm("n1o0"), nm("n1o1")], name="n1")
    g = H.make_graph([n1, n0] if operator.index(P["swap"]) else [n0, n1], "g",
                     [H.make_tensor_value_info(nm("gi0"), TP.FLOAT, [2]), H.make_tensor_value_info("b", TP.FLOAT, [2])],
                     [H.make_tensor_value_info(nm("go0"), TP.FLOAT, [2]), H.make_tensor_value_info("c", TP.FLOAT, None)],
                     initializer=[H.make_tensor(nm("init"), TP.FLOAT, [2], vals=[1.0, 2.0])],
                     value_info=[H.make_tensor_value_info("a", TP.FLOAT, [2])])
    if operator.index(P["ext"]):      # the initializer lives in an external file (which must never be touched)
        t = g.initializer[0]
        t.ClearField("float_data")
        t.data_location = TP.EXTERNAL
        for k, v in (("location", "c17_weights.bin"), ("offset", "0"), ("length", "8")):
            e = t.external_data.add()
            e.key, e.value = k, v
    return H.make_model(g, opset_imports=[H.make_opsetid("", 18)], ir_version=10)


R_NAMES_MAIN = dict(n0i0=(0, 3), n0i1=(0, 3), n0o0=(0, 3), n1i0=(0, 3), n1o0=(0, 3), n1o1=(0, 3), gi0=(0, 3), go0=(0, 3), init=(0, 3), swap=(0, 1), ext=(0, 1))


def t_names_sub(P):
    from onnx import TensorProto as TP
    from onnx import helper as H

    nm = lambda k: POOL[operator.index(P[k])]  # noqa: E731
    inner = H.make_node("Neg", [nm("si0")], [nm("so0")], name="inner")
    body_in = [H.make_tensor_value_info(nm("sgi"), TP.FLOAT, [2])] if operator.index(P["has_in"]) else []
    sub = H.make_graph([inner], "sub", body_in, [H.make_tensor_value_info(nm("sgo"), TP.FLOAT, [2])],
                       initializer=[H.make_tensor(nm("sinit"), TP.FLOAT, [2], vals=[1.0, 2.0])] if operator.index(P["has_init"]) else [])
    n0 = H.make_node("Relu", ["x"], [nm("n0o0")], name="n0")
    other = H.make_graph([H.make_node("Abs", ["x"], ["else_out"], name="abs")], "other", [], [H.make_tensor_value_info("else_out", TP.FLOAT, [2])])
    iff = H.make_node("If", ["cond"], [nm("ifo")], name="iff", then_branch=sub, else_branch=other)
    g = H.make_graph([n0, iff], "g", [H.make_tensor_value_info("x", TP.FLOAT, [2]), H.make_tensor_value_info("cond", TP.BOOL, [])],
                     [H.make_tensor_value_info(nm("go0"), TP.FLOAT, [2])])
    fn_body = H.make_node("Neg", [nm("fi")], [nm("fo")], name="fnode")
    fn = H.make_function("local", "f", [nm("fin")], [nm("fout")], [fn_body], [H.make_opsetid("", 18)])
    m = H.make_model(g, opset_imports=[H.make_opsetid("", 18), H.make_opsetid("local", 1)], ir_version=10, functions=[fn])
    return m


R_NAMES_SUB = dict(si0=(0, 3), so0=(0, 3), sgi=(0, 3), sgo=(0, 3), sinit=(0, 3), has_in=(0, 1), has_init=(0, 1), n0o0=(1, 2), ifo=(0, 3), go0=(0, 3),
                   fi=(0, 2), fo=(0, 2), fin=(0, 2), fout=(0, 2))

ENUMS = [0, 1, 7, 8, 16, 21, 22, 23, 24, 25, 26, 99, -1]


def t_enums(P):
    import onnx
    from onnx import TensorProto as TP
    from onnx import helper as H

    dt = ENUMS[operator.index(P["tensor_dt"])]
    et = ENUMS[operator.index(P["elem_type"])]
    at = operator.index(P["attr_type"])          # 0 (UNDEFINED) .. 14; protobuf rejects undeclared enum numbers at assignment
    loc = operator.index(P["data_location"])
    t = TP()
    t.name = "w"
    t.dims.extend([2])
    t.data_type = dt
    t.raw_data = b"\x00" * 8
    t.data_location = loc
    if loc == 1:
        e = t.external_data.add()
        e.key, e.value = "location", "w.bin"
    vi = onnx.ValueInfoProto()
    vi.name = "x"
    vi.type.tensor_type.elem_type = et
    n = H.make_node("Op", ["x", "w"], ["y"], name="n")
    a = n.attribute.add()
    a.name = "attr"
    a.type = at
    which = operator.index(P["attr_field"])
    if which == 0:
        a.i = 3
    elif which == 1:
        a.s = b"str"
    elif which == 2:
        a.floats.extend([1.0])
    elif which == 3:
        a.t.CopyFrom(t)
    elif which == 4:
        a.g.name = "empty_graph"
    # which == 5: nothing populated
    n2 = H.make_node("Identity", ["y"], ["z"], name="n2")
    # value-info of an intermediate value and of the (non-input) initializer: typed / explicitly UNDEFINED / without any type
    extra = []
    for nm_, sel in (("y", operator.index(P["vi_mid"])), ("w", operator.index(P["vi_init"]))):
        if sel == 0:
            continue
        v2 = onnx.ValueInfoProto()
        v2.name = nm_
        if sel == 1:
            v2.type.tensor_type.elem_type = et
        elif sel == 2:
            v2.type.tensor_type.elem_type = 0
            v2.type.tensor_type.shape.dim.add().dim_value = 2
        elif sel == 3:
            v2.type.sequence_type.elem_type.tensor_type.elem_type = 0
        # sel == 4: a value-info entry with a name and no type at all
        extra.append(v2)
    g = H.make_graph([n, n2], "g", [vi], [H.make_tensor_value_info("z", TP.FLOAT, None)], initializer=[t], value_info=extra)
    return H.make_model(g, opset_imports=[H.make_opsetid("", 18)], ir_version=10)


R_ENUMS = dict(tensor_dt=(0, len(ENUMS) - 1), elem_type=(0, len(ENUMS) - 1), attr_type=(0, 14), attr_field=(0, 5), data_location=(0, 1), vi_mid=(0, 4), vi_init=(0, 4))

EXT = [("location", "w.bin"), ("location", "/etc/passwd"), ("location", "../../outside.bin"), ("location", ""), ("offset", "-1"), ("offset", "abc"), ("offset", "99999999999999999999"),
       ("length", "-5"), ("length", "1e9"), ("length", "7"), ("checksum", "zz"), ("unknown_key", "v"), ("location", "w.bin\x00x")]


def t_tensors(P):
    from onnx import TensorProto as TP
    from onnx import helper as H

    t = TP()
    t.name = "w"
    t.data_type = [TP.FLOAT, TP.INT64, TP.STRING, TP.UINT4, TP.FLOAT16, TP.BOOL][operator.index(P["dtype"])]
    dims = [[2], [2, 3], [-1], [0], [], [2 ** 40], [3, -2]][operator.index(P["dims"])]
    t.dims.extend(dims)
    st = operator.index(P["storage"])
    if st in (0, 4):
        t.raw_data = [b"", b"\x00" * 8, b"\x01\x02\x03", b"\x00" * 24][operator.index(P["payload"])]
    if st in (1, 4):
        t.float_data.extend([1.0, 2.0][: operator.index(P["payload"])])
    if st == 2:
        t.int32_data.extend([1, 2, 3][: operator.index(P["payload"])])
    if st == 3:
        t.string_data.extend([b"x", b"\xff"][: operator.index(P["payload"])])
    if st == 5:
        t.data_location = TP.EXTERNAL
        for j in (operator.index(P["ext1"]), operator.index(P["ext2"])):
            if j >= 0:
                e = t.external_data.add()
                e.key, e.value = EXT[j]
    n = H.make_node("Identity", ["w"], ["y"], name="n")
    at = n.attribute.add()
    at.name, at.type = "t", 4
    at.t.CopyFrom(t)
    at.t.name = "attr_tensor"
    g = H.make_graph([n], "g", [], [H.make_tensor_value_info("y", TP.FLOAT, None)], initializer=[t])
    return H.make_model(g, opset_imports=[H.make_opsetid("", 18)], ir_version=10)


R_TENSORS = dict(dtype=(0, 5), dims=(0, 6), storage=(0, 5), payload=(0, 3), ext1=(-1, len(EXT) - 1), ext2=(-1, len(EXT) - 1))


def t_structure(P):
    import onnx
    from onnx import TensorProto as TP
    from onnx import helper as H

    k = operator.index(P["kind"])
    irv = [10, 0, -3, 3, 11, 13, 2 ** 40][operator.index(P["irv"])]
    x = H.make_tensor_value_info("x", TP.FLOAT, [2])
    y = H.make_tensor_value_info("y", TP.FLOAT, [2])
    n = H.make_node("Relu", ["x"], ["y"], name="n")
    g = H.make_graph([n], "g", [x], [y])
    m = H.make_model(g, opset_imports=[H.make_opsetid("", 18)], ir_version=10)
    m.ir_version = irv
    if k == 1:
        m.ClearField("graph")
    elif k == 2:
        m.graph.node[0].ClearField("op_type")
    elif k == 3:
        f = H.make_function("local", "f", ["a"], ["b"], [H.make_node("Neg", ["a"], ["b"])], [H.make_opsetid("", 18)])
        m.functions.extend([f, f])
    elif k == 4:   # recursive function
        f = H.make_function("local", "f", ["a"], ["b"], [H.make_node("f", ["a"], ["b"], domain="local")], [H.make_opsetid("", 18), H.make_opsetid("local", 1)])
        m.functions.append(f)
        m.graph.node[0].op_type, m.graph.node[0].domain = "f", "local"
    elif k == 5:   # reference attribute in the main graph
        a = m.graph.node[0].attribute.add()
        a.name, a.ref_attr_name, a.type = "alpha", "nowhere", 1
    elif k == 6:   # If without branches / with one branch / with a branch of the wrong kind
        m.graph.node[0].op_type = "If"
        a = m.graph.node[0].attribute.add()
        a.name, a.type = "then_branch", 5
    elif k == 7:
        m.opset_import.extend([H.make_opsetid("", 17), H.make_opsetid("", 18)])
    elif k == 8:
        del m.opset_import[:]
    elif k == 9:   # graph output listed twice, input listed twice
        m.graph.output.append(y)
        m.graph.input.append(x)
    elif k == 10:  # initializer and input and node output share one name
        m.graph.initializer.append(H.make_tensor("y", TP.FLOAT, [2], vals=[0.0, 0.0]))
        m.graph.input.append(y)
    elif k == 11:  # deeply nested subgraphs
        inner = H.make_graph([H.make_node("Neg", ["x"], ["z0"])], "d0", [], [H.make_tensor_value_info("z0", TP.FLOAT, None)])
        leaf = H.make_graph([H.make_node("Abs", ["x"], ["l"])], "leaf", [], [H.make_tensor_value_info("l", TP.FLOAT, None)])
        for d in range(1, 12):
            inner = H.make_graph([H.make_node("If", ["x"], [f"z{d}"], then_branch=inner, else_branch=leaf)], f"d{d}", [], [H.make_tensor_value_info(f"z{d}", TP.FLOAT, None)])
        m.graph.node.append(H.make_node("If", ["x"], ["deep"], then_branch=inner, else_branch=leaf))
    elif k == 12:  # sparse initializer + quantization annotation on unknown tensor + metadata with duplicate keys
        qa = m.graph.quantization_annotation.add()
        qa.tensor_name = "nowhere"
        e = qa.quant_parameter_tensor_names.add()
        e.key, e.value = "SCALE_TENSOR", "also_nowhere"
        for _ in range(2):
            e = m.metadata_props.add()
            e.key, e.value = "dup", "v"
    elif k == 13:  # value_info with nested type lacking an element type, a dim with neither value nor param, negative dim
        vi = m.graph.value_info.add()
        vi.name = "y"
        vi.type.sequence_type.elem_type.optional_type.SetInParent()
        d = m.graph.input[0].type.tensor_type.shape.dim.add()
        d.dim_value = -7
        m.graph.input[0].type.tensor_type.shape.dim.add()
    return m


R_STRUCT = dict(kind=(0, 13), irv=(0, 6))

FN_NAMES = ["t", "t:0", "u/v", "a::b"]


def t_functions(P):
    """a model-local function whose inner values carry value-info, at IR versions around the version (10) that introduced
    FunctionProto.value_info; value names contain the separators of the legacy '{domain}::{function}/{value}' scheme"""
    from onnx import TensorProto as TP
    from onnx import helper as H

    irv = [8, 9, 10, 11][operator.index(P["irv"])]
    inner = FN_NAMES[operator.index(P["inner"])]
    fin = FN_NAMES[operator.index(P["fin"])]
    dom = ["custom", "cu/stom", "cu::stom"][operator.index(P["dom"])]
    n1 = H.make_node("Relu", [fin], [inner], name="f1")
    n2 = H.make_node("Neg", [inner], ["fy"], name="f2")
    fn = H.make_function(dom, "F", [fin], ["fy"], [n1, n2], [H.make_opsetid("", 18)])
    if operator.index(P["overload"]):
        fn.overload = "ov"
    if operator.index(P["fvi"]):
        fn.value_info.extend([H.make_tensor_value_info(inner, TP.FLOAT, [2]), H.make_tensor_value_info(fin, TP.FLOAT, [2])])
    call = H.make_node("F", ["x"], ["y"], name="call", domain=dom)
    if operator.index(P["overload"]):
        call.overload = "ov"
    g = H.make_graph([call], "g", [H.make_tensor_value_info("x", TP.FLOAT, [2])], [H.make_tensor_value_info("y", TP.FLOAT, [2])])
    if operator.index(P["legacy"]):      # legacy spelling of function value-info in the main graph (IR < 10)
        g.value_info.append(H.make_tensor_value_info(f"{dom}::F/{inner}", TP.FLOAT, [2]))
    return H.make_model(g, opset_imports=[H.make_opsetid("", 18), H.make_opsetid(dom, 1)], ir_version=irv, functions=[fn])


R_FUNCTIONS = dict(irv=(0, 3), inner=(0, 3), fin=(0, 1), dom=(0, 2), overload=(0, 1), fvi=(0, 1), legacy=(0, 1))

TEMPLATES = {"functions": (t_functions, R_FUNCTIONS), "names-main": (t_names_main, R_NAMES_MAIN), "names-sub": (t_names_sub, R_NAMES_SUB), "enums": (t_enums, R_ENUMS), "tensors": (t_tensors, R_TENSORS),
             "structure": (t_structure, R_STRUCT)}


# ---------------------------------------------------------------------------------------------


def all_tensors(m):
    import onnx_ir as ir

    out = []

    def graph(g):
        for v in g.initializers.values():
            if v.const_value is not None:
                out.append(v.const_value)
        for n in g:
            for a in n.attributes.values():
                if a.is_ref():
                    continue
                if a.type == ir.AttributeType.TENSOR and a.value is not None:
                    out.append(a.value)
                elif a.type == ir.AttributeType.TENSORS:
                    out.extend(a.value)
                elif a.type == ir.AttributeType.GRAPH and a.value is not None:
                    graph(a.value)
                elif a.type == ir.AttributeType.GRAPHS:
                    for s in a.value:
                        graph(s)

    graph(m.graph)
    for f in m.functions.values():
        graph(f.graph)
    return out


def check(template, P):
    import onnx_ir as ir
    from harness.C14 import state_of

    build, _ = TEMPLATES[template]
    p = build(P)
    problems = []
    obs = {}
    old = signal.signal(signal.SIGALRM, _alarm)
    signal.setitimer(signal.ITIMER_REAL, 20.0)
    try:
        with Recorder() as rec:
            try:
                m = ir.from_proto(p)
            except _Timeout:
                problems.append("termination: from_proto did not return within 20 s")
                return False, dict(problems=problems)
            except Exception as e:  # noqa: BLE001
                obs["raised"] = type(e).__name__
                m = None
            if m is not None:
                for t in all_tensors(m):
                    try:
                        _ = (t.name, t.dtype, t.shape, t.size)
                    except Exception:  # noqa: BLE001
                        pass
            ev = rec.events
        if ev:
            problems.append(f"file access: deserializing / inspecting tensors touched the file system: {ev[:3]}")
        if m is None:
            return (not problems), dict(problems=problems, **obs)
        try:
            inv = irlib.invariant(state_of(m)) + irlib.producer_graph_rule(state_of(m))
        except _Timeout:
            raise
        except Exception as e:  # noqa: BLE001
            inv = [f"[accessor-raised] a public accessor of the returned model raised {type(e).__name__}: {str(e)[:80]}"]
        if inv:
            problems.append("links: " + "; ".join(inv[:2]))
        try:
            p1 = ir.to_proto(m)
        except _Timeout:
            raise
        except Exception as e:  # noqa: BLE001
            obs["serialize_raised"] = type(e).__name__
            return (not problems), dict(problems=problems, **obs)
        try:
            p2 = ir.to_proto(ir.from_proto(p1))
        except _Timeout:
            raise
        except Exception as e:  # noqa: BLE001
            problems.append(f"fixpoint: the proto produced from the accepted model is rejected: {type(e).__name__}: {str(e)[:100]}")
            return False, dict(problems=problems, **obs)
        if p2 != p1:
            from engine import protonorm

            problems.append("fixpoint: serialize(deserialize(p')) != p': " + str(protonorm.first_difference(p1, p2, "model")))
    except _Timeout:
        problems.append("termination: processing the model did not finish within 20 s")
    finally:
        signal.setitimer(signal.ITIMER_REAL, 0)
        signal.signal(signal.SIGALRM, old)
    return (not problems), dict(problems=problems, **obs)


def make_case(tier, key):
    template, fixed = key[0], dict(key[1]) if len(key) > 1 else {}
    _, ranges = TEMPLATES[template]
    ranges = dict(ranges)
    for k, v in fixed.items():
        ranges[k] = (v, v)

    def body(P):
        return check(template, P)

    def sig(args, obs):
        first = obs["problems"][0] if obs["problems"] else "?"
        base = f"C17:{template}:" + first.split(":")[0] + ":" + (first.split(": ")[1][:50] if ": " in first else "")
        if template == "functions":
            # which irregularity of the legacy '{domain}::{function}/{value}' naming scheme is present
            cls = []
            if args.get("dom", 0) > 0:
                cls.append("domain-with-separator")
            if FN_NAMES[args.get("inner", 0)] in ("u/v", "a::b"):
                cls.append("value-with-separator")
            if args.get("overload", 0):
                cls.append("overload")
            base += ":" + ("+".join(cls) or "plain-names")
        return base

    def describe(args, obs):
        return f"template {template} {args}: " + "; ".join(obs["problems"][:2])

    return hist.Case(f"{template}{sorted(fixed.items())}", ranges, body, meta=dict(sig=sig, describe=describe))


def keys_for(tier):
    keys = []
    # names-main: 4^9 * 2 is too many for one shard: fix three slots per shard, and bound the rest
    for a in range(4):
        for b in range(4):
            keys.append(("names-main", (("n0o0", a), ("n1o0", b), ("gi0", 1), ("n1o1", 3 if tier == "quick" else (a + b) % 4))))
    for a in range(4):   # body slots symbolic, function slots fixed
        keys.append(("names-sub", (("so0", a), ("fi", 1), ("fo", 2), ("fin", 1), ("fout", 2), ("go0", 3))))
    # function slots symbolic, body slots fixed
    keys.append(("names-sub", (("si0", 1), ("so0", 2), ("sgi", 1), ("sgo", 2), ("sinit", 3), ("ifo", 3), ("go0", 3), ("has_in", 0), ("has_init", 0), ("n0o0", 1))))
    for a in range(len(ENUMS)):
        keys.append(("enums", (("tensor_dt", a), ("vi_mid", 0), ("vi_init", 0))))
    for a in (0, 1, 11):                                   # undefined / float / unknown tensor type x every value-info variant
        for f_ in (0, 5):
            keys.append(("enums", (("tensor_dt", a), ("attr_type", 2), ("attr_field", f_), ("elem_type", 1))))
    for a in range(6):
        keys.append(("tensors", (("storage", a),)))
    keys.append(("structure", ()))
    keys.append(("functions", ()))
    return keys


def run(chk, tier):
    chk.fn("serde.deserialize_model / _deserialize_graph / _declare_node_outputs / _deserialize_node / deserialize_function / deserialize_tensor / deserialize_attribute / deserialize_value_info_proto / deserialize_type_proto_*",
           "serde.TensorProtoTensor", "_core.ExternalTensor.__init__ (no file access)", "_core.Graph/Node/Value constructors", "serde.serialize_model (fixpoint clause)")
    chk.assume(
        "protos are built directly with protobuf; every slot is a symbolic integer selecting from a small pool (names {'', 'a', 'b', 'c'}; valid / undefined / unknown enum numbers; payload/dims/external-data variants; structural defects)",
        "file access is observed with an audit hook (open, os.open, listdir, scandir, mmap) and wrappers around os.stat/lstat/readlink, after a warm-up import",
        "termination is a 20 s wall-clock limit per call",
        "every explored path is re-executed natively with the path's witness and must give the same observation",
    )
    chk.bounds = dict(templates={k: v[1] for k, v in TEMPLATES.items()}, shards="names-main: 3-4 slots fixed per shard; enums: one shard per tensor data type; tensors: one shard per storage kind")
    chk.not_decided += ["byte-level mutations of the wire format and invalid UTF-8 (the upb parser is C; a Python str field cannot hold invalid UTF-8)", "protos outside the templates"]
    import logging

    logging.disable(logging.CRITICAL)
    hist.run_cases(chk, "harness.C17", "make_case", keys_for(tier))
    chk.extra["rule"] = "one case per (template, fixed slots); the remaining slots are symbolic and every feasible combination is explored"


def replay(rec):
    case = make_case("quick", tuple(tuple(x) if isinstance(x, list) else x for x in _tuplify(rec["key"])))
    ok, obs = case.body(dict(rec["args"]))
    print(obs)
    return not ok


def _tuplify(k):
    return tuple(_tuplify(x) if isinstance(x, list) else x for x in k)
