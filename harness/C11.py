"""C11 — graph iteration stays well defined while the graph is edited.

History driver on zsym.  Steps are symbolic choices among edits (append / extend / insert_before /
insert_after / remove / move / sort) and iterator steps on several simultaneous iterators
(two forward, one backward, one recursive).  The oracle is a rule-based *cursor model* that never
looks at link boxes: a cursor is either AT a live node (the next node is its current successor) or
BEFORE a resume node (the node that followed the cursor's node at its original place when that node
was removed or moved; if the resume node is removed in turn, the one that followed it).  After every
step `list(g)`, `len`, indexing (both signs), `reversed` and membership must describe the reference
sequence, every yielded node must belong to the graph, and after the last edit every iterator is
drained and must terminate within len + removals + 2 steps.
"""
from __future__ import annotations

import operator

import onnx_ir as ir
from onnx_ir import traversal

from engine import hist

LEVEL = "other"
TECHNIQUE = "symbolic execution (zsym, z3) of bounded interleavings of edits and iterator steps over the real Graph/Function/linked list; rule-based cursor model as oracle; per-path native re-execution"

END = "END"
ROOT = "ROOT"


class Cursor:
    def __init__(self, direction):
        self.dir = direction       # +1 forward, -1 backward
        self.state = ("at", ROOT)  # generators bind to the list at their first next()
        self.dead = False
        self.exact = True          # False once an ambiguous re-insertion touched this cursor


class Ref:
    """Reference sequence + cursor semantics (no link boxes)."""

    def __init__(self, nodes):
        self.L = list(nodes)
        self.cursors = []
        self.removals = 0

    def nbr(self, n, d):
        if n is ROOT:
            if not self.L:
                return END
            return self.L[0] if d > 0 else self.L[-1]
        i = self.L.index(n) + d
        return self.L[i] if 0 <= i < len(self.L) else END

    def remove(self, n):
        for c in self.cursors:
            if c.state[1] is n:
                c.state = ("before", self.nbr(n, c.dir))
        self.L.remove(n)
        self.removals += 1

    def _insert_many_after(self, point, new):
        """point: a live node or ROOT"""
        for v in new:
            if v is point:
                continue  # documented no-op
            if v in self.L:
                if self.nbr(point, +1) is v:
                    # re-insertion at the place the node already occupies: a move or a no-op are both
                    # acceptable readings; cursors on v are no longer compared exactly
                    for c in self.cursors:
                        if c.state[1] is v:
                            c.exact = False
                self.remove(v)
            i = 0 if point is ROOT else self.L.index(point) + 1
            self.L.insert(i, v)
            point = v

    def append(self, n):
        self._insert_many_after(self.L[-1] if self.L else ROOT, [n])

    def insert_after(self, anchor, new):
        self._insert_many_after(anchor, new)

    def insert_before(self, anchor, new):
        p = self.nbr(anchor, -1)
        self._insert_many_after(ROOT if p is END else p, new)

    def next(self, c):
        """expected outcome of next() on cursor c: a node or END"""
        if c.dead:
            return END
        kind, n = c.state
        nxt = self.nbr(n, c.dir) if kind == "at" else n
        if nxt is END:
            c.dead = True
            return END
        c.state = ("at", nxt)
        return nxt


def build(seq, via_function):
    """Pool of 5 nodes; node 1 uses node 0's output; node 4 carries a 2-node subgraph."""
    x = ir.Value(name="x")
    n0 = ir.Node("", "N0", [x], name="n0")
    n1 = ir.Node("", "N1", [n0.outputs[0]], name="n1")
    n2 = ir.Node("", "N2", [x], name="n2")
    n3 = ir.Node("", "N3", [x], name="n3")
    s0 = ir.Node("", "S0", [x], name="s0")
    s1 = ir.Node("", "S1", [s0.outputs[0]], name="s1")
    sub = ir.Graph([], [s1.outputs[0]], nodes=[s0, s1], name="sub")
    n4 = ir.Node("", "N4", [x], attributes=[ir.AttrGraph("body", sub)], name="n4")
    pool = [n0, n1, n2, n3, n4]
    g = ir.Graph([x], [], nodes=[pool[i] for i in seq], name="g")
    target = ir.Function("d", "f", graph=g, attributes=[]) if via_function else g
    return target, g, pool, [s0, s1]


OPS = ["append", "extend2", "insert_before", "insert_after", "insert_after2", "remove", "sort", "next_f0", "next_f1", "next_rev", "next_rec"]


def body_for(seq, k, via_function, pool_n, first_op=None):
    def body(P):
        if first_op is not None:
            P = dict(P)
            P["o0"] = first_op
        t, g, pool, subnodes = build(seq, via_function)
        ref = Ref([pool[i] for i in seq])
        problems = []
        log = []
        f0, f1, rv = iter(t), iter(t), reversed(t)
        rec = iter(traversal.RecursiveGraphIterator(t))
        c0, c1, cr, crec = Cursor(+1), Cursor(+1), Cursor(-1), Cursor(+1)
        ref.cursors = [c0, c1, cr, crec]
        rec_pending = []  # sub nodes still to be yielded by the recursive iterator
        sorted_once = [False]

        def step_iter(it, cur, label, recursive=False):
            try:
                got = next(it)
            except StopIteration:
                got = END
            except Exception as e:  # noqa: BLE001 - the property says iteration never errors
                problems.append(f"{label}: next() raised {type(e).__name__}: {e}")
                cur.dead = True
                return
            if got is not END and not any(got is n for n in ref.L) and not any(got is n for n in subnodes):
                problems.append(f"{label}: yielded {got.name}, which is not in the graph at that moment")
            if recursive and rec_pending and sorted_once[0]:
                del rec_pending[:]  # a sort also moves the nodes of every subgraph
            if recursive and rec_pending:
                want = rec_pending.pop(0)
                if got is not want:
                    problems.append(f"{label}: expected subgraph node {want.name}, got {getattr(got, 'name', got)}")
                return
            if cur.exact and not sorted_once[0]:
                want = ref.next(cur)
                if got is not want:
                    problems.append(f"{label}: expected {getattr(want, 'name', want)}, got {getattr(got, 'name', got)}")
                if recursive and want is pool[4]:
                    rec_pending.extend(subnodes)
            else:
                # generic rules only: keep the model roughly in sync for the drain bound
                if got is END:
                    cur.dead = True
                elif recursive and got is pool[4]:
                    rec_pending.extend(subnodes)
            log.append(f"{label}->{getattr(got, 'name', got)}")

        def check_sequence(where):
            try:
                _check_sequence(where)
            except Exception as e:  # noqa: BLE001 - accessors must never fail
                problems.append(f"{where}: list/len/index/reversed/membership raised {type(e).__name__}: {e}")

        def _check_sequence(where):
            real = list(t)
            if len(real) != len(ref.L) or any(a is not b for a, b in zip(real, ref.L)):
                problems.append(f"{where}: list = {[n.name for n in real]}, reference {[n.name for n in ref.L]}")
                return
            if len(t) != len(real):
                problems.append(f"{where}: len = {len(t)} but {len(real)} nodes are yielded")
            if [n.name for n in reversed(t)] != [n.name for n in real[::-1]]:
                problems.append(f"{where}: reversed() = {[n.name for n in reversed(t)]}")
            for i in range(len(real)):
                if t[i] is not real[i] or t[i - len(real)] is not real[i]:
                    problems.append(f"{where}: indexing disagrees at {i}")
            for n in pool:
                if (n in t) != any(n is m for m in real):
                    problems.append(f"{where}: membership of {n.name} wrong")

        # pre-advance the iterators
        adv = operator.index(P["p"])
        for it, cur, label, n_adv, r in ((f0, c0, "f0", adv, False), (f1, c1, "f1", 0, False), (rv, cr, "rev", adv, False), (rec, crec, "rec", adv, True)):
            for _ in range(n_adv):
                step_iter(it, cur, label, r)
        for i in range(k):
            op = OPS[operator.index(P[f"o{i}"])]
            N = lambda key: pool[operator.index(P[key]) % pool_n]  # noqa: E731
            try:
                if op == "append":
                    n = N(f"a{i}")
                    t.append(n)
                    ref.append(n)
                elif op == "extend2":
                    a, b = N(f"a{i}"), N(f"b{i}")
                    t.extend([a, b])
                    ref.append(a)
                    ref.append(b)
                elif op == "insert_before":
                    a, b = N(f"a{i}"), N(f"b{i}")
                    if any(a is m for m in ref.L):
                        t.insert_before(a, b)
                        ref.insert_before(a, [b])
                elif op == "insert_after":
                    a, b = N(f"a{i}"), N(f"b{i}")
                    if any(a is m for m in ref.L):
                        t.insert_after(a, b)
                        ref.insert_after(a, [b])
                elif op == "insert_after2":
                    a, b = N(f"a{i}"), N(f"b{i}")
                    c = pool[(pool.index(b) + 1 + operator.index(P[f"c{i}"])) % pool_n]
                    if any(a is m for m in ref.L):
                        t.insert_after(a, [b, c])
                        ref.insert_after(a, [b, c])
                elif op == "remove":
                    a = N(f"a{i}")
                    if any(a is m for m in ref.L):
                        t.remove(a)
                        ref.remove(a)
                elif op == "sort":
                    t.sort()
                    order = list(t)
                    if sorted(id(n) for n in order) != sorted(id(n) for n in ref.L):
                        problems.append("sort changed the set of nodes")
                    ref.L = order
                    ref.removals += len(order) + len(subnodes)  # every node (also in subgraphs) is moved
                    sorted_once[0] = True  # every node was moved: only the generic rules apply from here
                elif op == "next_f0":
                    step_iter(f0, c0, "f0")
                elif op == "next_f1":
                    step_iter(f1, c1, "f1")
                elif op == "next_rev":
                    step_iter(rv, cr, "rev")
                elif op == "next_rec":
                    step_iter(rec, crec, "rec", True)
            except Exception as e:  # noqa: BLE001
                problems.append(f"step {i} {op} raised {type(e).__name__}: {e}")
            log.append(op)
            if not op.startswith("next"):
                check_sequence(f"after step {i} ({op})")
        # edits stopped: drain every iterator; each must terminate
        bound = len(ref.L) + ref.removals + len(subnodes) + 2
        for it, cur, label, r in ((f0, c0, "f0", False), (f1, c1, "f1", False), (rv, cr, "rev", False), (rec, crec, "rec", True)):
            seen = []
            for _ in range(bound + 1):
                before = len(problems)
                if cur.dead and not (r and rec_pending):
                    # model says exhausted: the real iterator must agree
                    try:
                        got = next(it)
                        problems.append(f"{label}: yielded {got.name} after the model was exhausted") if (cur.exact and not sorted_once[0]) else None
                        if not (cur.exact and not sorted_once[0]):
                            continue
                    except StopIteration:
                        pass
                    break
                step_iter(it, cur, label, r)
                if len(problems) > before:
                    break
            else:
                problems.append(f"{label}: did not terminate within {bound} steps after edits stopped")
        return (not problems), dict(log=log[:12], problems=problems[:4])

    return body


SEQS = [(), (0,), (0, 1), (1, 0), (0, 1, 2), (2, 0, 1), (4, 0), (0, 4, 1)]


def make_case(tier, key):
    si, k, via_function, pool_n, first_op = key
    ranges = dict(p=(0, 2))
    for i in range(k):
        if not (i == 0 and first_op is not None):
            ranges[f"o{i}"] = (0, len(OPS) - 1)
        ranges[f"a{i}"] = (0, pool_n - 1)
        ranges[f"b{i}"] = (0, pool_n - 1)
        ranges[f"c{i}"] = (0, 1 if pool_n > 3 else 0)
    name = f"{'function' if via_function else 'graph'}[initial {SEQS[si]}, {k} steps, pool {pool_n}" + (f", first op {OPS[first_op]}]" if first_op is not None else "]")

    def sig(args, obs):
        first = obs["problems"][0]
        kind = "sequence" if ("list" in first or "len =" in first or "reversed" in first or "indexing" in first or "membership" in first) else \
            "not-in-graph" if "not in the graph" in first else "termination" if "terminate" in first else "raised" if "raised" in first else "cursor"
        return f"C11:{kind}"

    def describe(args, obs):
        return f"{args} log={obs['log']} -> " + "; ".join(obs["problems"][:2])

    return hist.Case(name, ranges, body_for(SEQS[si], k, via_function, pool_n, first_op), meta=dict(sig=sig, describe=describe))


def keys_for(tier):
    keys = []
    if tier == "quick":
        for si in range(len(SEQS)):
            if si < 6:
                keys.append((si, 2, False, 3, None))
            else:
                keys += [(si, 2, False, 5, o) for o in range(len(OPS))]  # sharded by first operation
        keys.append((4, 2, True, 3, None))
    else:
        for si in range(len(SEQS)):
            keys += [(si, 3, False, 4 if si < 6 else 5, o) for o in range(len(OPS))]
            keys += [(si, 2, True, 5, o) for o in range(len(OPS))]
    return keys


def run(chk, tier):
    chk.fn("_linked_list.DoublyLinkedSet.__iter__/__reversed__/__getitem__/__len__/_insert_one_after/remove/append/extend/insert_after/insert_before",
           "_core.Graph.__iter__/__reversed__/__getitem__/__len__/append/extend/insert_before/insert_after/remove/sort", "_core.Function (same, delegating)",
           "traversal.RecursiveGraphIterator")
    chk.assume(
        "per step a symbolic operation selector and symbolic operand selectors into a pool of 5 nodes (node 1 depends on node 0, node 4 carries a 2-node subgraph)",
        "four simultaneous iterators: two forward, one backward, one recursive; three of them pre-advanced by a symbolic number of steps (0..2)",
        "after a sort (every node is moved) only the generic rules are asserted for live iterators: yielded nodes belong to the graph, no error, termination",
        "re-inserting a node at the place it already occupies may be read as a move or as a no-op: cursors on that node are then checked by the generic rules only",
        "anchors of insert_before/insert_after are nodes of the graph (rejected calls are C06's subject)",
    )
    chk.bounds = dict(initial_sequences=[list(s) for s in SEQS], steps="2 (pool 3 for the sequences without the subgraph node, pool 5 otherwise)" if tier == "quick" else "3 (pool 5), 4 (pool 3)", iterators=4)
    chk.not_decided += ["more than 4 simultaneous iterators; histories longer than the bound", "an inductive argument over arbitrary tombstone chains"]
    hist.run_cases(chk, "harness.C11", "make_case", keys_for(tier))
    chk.extra["rule"] = "one case per (initial sequence, number of steps, Graph or Function, pool size); all feasible interleavings of edits and iterator steps within the bound"


def replay(rec):
    case = make_case("quick", tuple(rec["key"]))
    ok, obs = case.body(dict(rec["args"]))
    print(obs)
    return not ok
