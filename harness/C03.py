"""C03 — IR -> proto -> IR preserves the model; serialization has no side effects.

History driver on zsym.  Sources are the shared model family and the C01 seed states wrapped into
models; a symbolic edit (the C01 alphabet with symbolic operands) is applied first, then symbolic
pre-state variations: which initializer shares its tensor OBJECT with another one, which tensor
implementation backs an initializer (array / proto-backed / lazy / external without file), the IR
version, metadata and doc strings on every carrier.

Oracles: `to_proto` twice gives equal protos; the public snapshot of every object is the same before and
after `to_proto` except for each initializer tensor's own name being aligned with its value; and
`from_proto(to_proto(m))` is isomorphic to m (engine.iso: a bijection of value objects is built while
walking both models, so a use silently re-wired to a same-named value in another scope is found).

Precondition (documented in the evidence): the model is serializable and its names resolve - names are
unique within a scope, every used value has a name, and a value referenced from a scope is the innermost
definition of its name visible from there (ONNX scoping).  Paths violating it are skipped and counted.
"""
from __future__ import annotations

import operator

from engine import hist, irlib, iso, models

LEVEL = "other"
TECHNIQUE = ("symbolic execution (zsym/z3) of edit-then-serialize histories over a model family: edit operands, tensor sharing/implementation, IR version and metadata symbolic; "
             "oracles: structural isomorphism with value bijection after the round trip, serialization idempotent and side-effect free; per-path native re-execution")

SEED_SOURCES = [f"seed{k}" for k in range(irlib.N_SEEDS)]
EDIT_OPS = [i for i, o in enumerate(irlib.OPS) if o not in ("g.sort",)]


def build(src):
    import onnx_ir as ir

    if src.startswith("seed"):
        st = irlib.seed(int(src[4:]))
        g = st.graphs[0]
        if "" not in g.opset_imports:
            g.opset_imports[""] = 18
        m = ir.Model(g, ir_version=10, producer_name="verif")
        return m, st
    m = models.build(src)
    from harness.C14 import state_of

    return m, state_of(m)


def scope_chain_ok(m):
    """names unique per scope, used values named, and every use resolves (innermost first) to the value itself"""
    import onnx_ir as ir

    def defs(g):
        d = {}
        for v in list(g.inputs) + list(g.initializers.values()) + [o for n in g for o in n.outputs]:
            if v.name:
                if v.name in d and d[v.name] is not v:
                    return None
                d[v.name] = v
        return d

    defining: list = []

    def walk(g, chain):
        d = defs(g)
        if d is None:
            return "duplicate name in a scope"
        here = [id(v) for v in g.inputs] + [id(o) for n in g for o in n.outputs]
        defining.extend(here)
        if len(set(defining)) != len(defining):
            return "a value is defined twice (listed twice as input, output of two nodes, or defined in two graphs)"
        for v in g.initializers.values():
            if v.const_value is None:
                return "an initializer without a tensor cannot be represented in a proto"
            if v.producer() is not None:
                return "an initializer produced by a node"
        chain = chain + [d]
        for v in g.outputs:
            if not v.name:
                return "unnamed graph output"
            if d.get(v.name) is not v:
                return "graph output not defined in its own graph"
        for n in g:
            for v in n.inputs:
                if v is None:
                    continue
                if not v.name:
                    return "unnamed used value"
                hit = None
                for sc in reversed(chain):
                    if v.name in sc:
                        hit = sc[v.name]
                        break
                if hit is not None and hit is not v:
                    return "a use does not resolve to the innermost definition of its name"
                if hit is None:
                    return "a use refers to a value that is not defined in the scope chain (dangling)"
            for a in n.attributes.values():
                if a.type == ir.AttributeType.GRAPH and not a.is_ref():
                    r = walk(a.value, chain)
                    if r:
                        return r
                elif a.type == ir.AttributeType.GRAPHS and not a.is_ref():
                    for s in a.value:
                        r = walk(s, chain)
                        if r:
                            return r
        return None

    r = walk(m.graph, [])
    if r:
        return r
    for f in m.functions.values():
        if len(f.graph.initializers):
            return "a function body with initializers (FunctionProto has no field for them)"
        r = walk(f.graph, [])
        if r:
            return r
    return None


def snapshot(st, m):
    s = irlib.snapshot(st)
    out = {}
    for k, v in s.items():
        if k[0] == "v":
            v = list(v)
            is_init = v[7]
            if is_init and v[-1] is not None:
                v[-1] = ("<aligned>", v[-1][1])     # an initializer tensor's own name may be aligned with its value's
            v = tuple(v)
        out[k] = v
    out["model"] = (m.ir_version, m.producer_name, m.producer_version, m.domain, m.model_version, m.doc_string, dict(m.metadata_props), sorted(map(str, m.functions)))
    return out


def run_one(src, P):
    import numpy as np

    import onnx_ir as ir

    m, st = build(src)
    obs = {}
    # 1. one symbolic edit
    op = operator.index(P["op"])
    if op >= 0:
        opi = EDIT_OPS[op % len(EDIT_OPS)]
        obs["edit"] = irlib.OPS[opi]
        obs["edit_raised"] = irlib.apply(st, opi, P["gi"], P["a"], P["b"], P["c"], P["d"])
    # 2. pre-state variations
    inits = list(m.graph.initializers.values())
    share = operator.index(P["share"])
    if share >= 0 and len(inits) >= 2:
        i, j = share % len(inits), (share // len(inits) + 1 + share) % len(inits)
        if i != j and inits[i].const_value is not None:
            inits[j].const_value = inits[i].const_value          # two initializers, one tensor object
            obs["shared"] = [inits[i].name, inits[j].name]
    timpl = operator.index(P["timpl"])
    if timpl and inits and inits[0].const_value is not None:
        t = inits[0].const_value
        if timpl == 1:
            tp = ir.serde.serialize_tensor(t)
            for k_, v_ in (("tk", "tv"), ("tk2", "tv2")):       # the proto already carries metadata ...
                e_ = tp.metadata_props.add()
                e_.key, e_.value = k_, v_
            pt = ir.serde.TensorProtoTensor(tp)
            tmeta = operator.index(P["tmeta"])                  # ... which is then edited through the IR object
            if tmeta == 1:
                pt.metadata_props["tk"] = "changed"
            elif tmeta == 2:
                del pt.metadata_props["tk2"]
            elif tmeta == 3:
                pt.metadata_props.clear()
            elif tmeta == 4:
                pt.metadata_props["added"] = "new"
            obs["tensor_metadata_edit"] = ["none", "change", "delete", "clear", "add"][tmeta]
            inits[0].const_value = pt
        elif timpl == 2:
            inits[0].const_value = ir.LazyTensor(lambda t=t: t, dtype=t.dtype, shape=t.shape, name=t.name)
        elif timpl == 3:
            inits[0].const_value = ir.ExternalTensor("weights.bin", 16, t.nbytes, t.dtype, shape=t.shape, name=t.name, base_dir="/nonexistent")
        obs["tensor_impl"] = ["", "proto-backed", "lazy", "external"][timpl]
    m.ir_version = operator.index(P["irv"])
    alias = operator.index(P["alias"])
    if alias and "" in m.graph.opset_imports:
        v0 = m.graph.opset_imports[""]
        if alias == 1:        # the default domain spelled 'ai.onnx'
            del m.graph.opset_imports[""]
            m.graph.opset_imports["ai.onnx"] = v0
        else:                 # both spellings, different versions
            m.graph.opset_imports["ai.onnx"] = v0 - 1
        obs["opset_alias"] = dict(m.graph.opset_imports)
    if operator.index(P["meta"]):
        m.doc_string = "model doc"
        m.metadata_props["mk"] = "mv"
        m.graph.doc_string = "graph doc"
        m.graph.metadata_props["gk"] = "gv"
        for n in list(m.graph)[:2]:
            n.doc_string = f"doc of {n.name}"
            n.metadata_props["nk"] = "nv"
            for o in n.outputs[:1]:
                o.metadata_props["vk"] = "vv"
        for v in inits[:1]:
            if v.const_value is not None and hasattr(v.const_value, "metadata_props") and timpl in (0,):
                v.const_value.metadata_props["tk"] = "tv"
    why = scope_chain_ok(m)
    if why:
        return True, dict(problems=[], skipped=why, **obs)
    before = snapshot(st, m)
    try:
        p1 = ir.to_proto(m)
    except Exception as e:  # noqa: BLE001
        return True, dict(problems=[], skipped=f"not serializable: {type(e).__name__}", **obs)
    problems = []
    after = snapshot(st, m)
    if after != before:
        ks = [k for k in before if before[k] != after.get(k)]
        problems.append(f"side effect: to_proto changed the model: {[(k, str(before[k])[:80], str(after.get(k))[:80]) for k in ks[:2]]}")
    p2 = ir.to_proto(m)
    if p1 != p2:
        problems.append("idempotence: serializing twice gives different protos")
    try:
        m2 = ir.from_proto(p1)
    except Exception as e:  # noqa: BLE001
        problems.append(f"round trip: the serialized model does not deserialize: {type(e).__name__}: {str(e)[:120]}")
        return False, dict(problems=problems, **obs)
    d = iso.iso(m, m2, check_device=True)
    if d:
        problems.append("round trip: " + "; ".join(d[:3]))
    return (not problems), dict(problems=problems, **obs)


RANGES = dict(op=(-1, len(EDIT_OPS) - 1), gi=(0, 1), a=(0, 5), b=(-1, 2), c=(-1, 1), d=(0, 12), share=(-1, 3), timpl=(0, 3), irv=(3, 13), meta=(0, 1), alias=(0, 2), tmeta=(0, 4))


def make_case(tier, key):
    src, group = key
    ranges = dict(RANGES)
    if group == "edits":
        ranges.update(share=(-1, -1), timpl=(0, 0), irv=(10, 10), meta=(0, 0), alias=(0, 0), tmeta=(0, 0), op=(0, len(EDIT_OPS) - 1))
    elif group == "variations":
        ranges.update(op=(-1, -1), gi=(0, 0), a=(0, 0), b=(0, 0), c=(0, 0), d=(0, 0))
    else:  # one edit then a shared tensor / other implementation
        ranges.update(irv=(10, 10), meta=(0, 0), alias=(0, 0), tmeta=(0, 0), a=(0, 3), b=(0, 1), c=(0, 1), d=(0, 1), share=(-1, 0), timpl=(0, 1))

    def body(P):
        return run_one(src, P)

    def sig(args, obs):
        return "C03:" + (obs["problems"][0].split(":")[0] if obs["problems"] else "?") + ":" + (obs.get("edit") or obs.get("tensor_impl") or ("shared" if obs.get("shared") else "plain"))

    def describe(args, obs):
        return f"source {src} {args} ({ {k: v for k, v in obs.items() if k != 'problems'} }): " + "; ".join(obs["problems"][:2])

    return hist.Case(f"{src}[{group}]", ranges, body, meta=dict(sig=sig, describe=describe))


def keys_for(tier):
    keys = []
    for s in list(models.MODELS) + SEED_SOURCES:
        keys.append((s, "variations"))
        keys.append((s, "edits"))
        if tier == "thorough":
            keys.append((s, "both"))
    return keys


def run(chk, tier):
    chk.fn("serde.serialize_model / serialize_graph_into / serialize_node_into / serialize_value_into / serialize_tensor_into / serialize_attribute_into / serialize_function_into",
           "serde.deserialize_model / _deserialize_graph / _deserialize_node / deserialize_value_info_proto / deserialize_tensor / deserialize_attribute / deserialize_function",
           "_core (every mutator of the C01 alphabet)", "_core.Tensor / LazyTensor / ExternalTensor / serde.TensorProtoTensor")
    chk.assume(
        "precondition: the model serializes and its names resolve (unique per scope, used values named, each use is the innermost visible definition of its name); other paths are skipped and counted",
        "edit operands, tensor sharing, tensor implementation, IR version (3..13) and metadata toggles are symbolic integers",
        "scalars reach protobuf as concrete values of the path (the protobuf C boundary realises symbolic values)",
        "every explored path is re-executed natively with the path's witness and must give the same observation",
    )
    chk.bounds = dict(sources=list(models.MODELS) + SEED_SOURCES, edits="one operation of the C01 alphabet with symbolic operands", variations=RANGES)
    chk.not_decided += ["histories of more than one edit", "textproto/JSON formats, file I/O", "sparse tensors"]
    import logging

    logging.disable(logging.CRITICAL)
    models.INFER_SHAPES = False
    hist.run_cases(chk, "harness.C03", "make_case", keys_for(tier))
    chk.extra["rule"] = "one case per (source, group); every symbolic parameter combination that z3 finds feasible is explored"


def replay(rec):
    models.INFER_SHAPES = False
    case = make_case("quick", tuple(rec["key"]))
    ok, obs = case.body(dict(rec["args"]))
    print(obs)
    return not ok
