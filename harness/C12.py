"""C12 — topological sort is correct across scopes, stable, deterministic, atomic.

History driver on zsym: one symbolic boolean per potential dependency edge (node i uses an output
of node j; repeated and optional inputs; second outputs), a symbolic initial permutation, and for
the nested families symbolic captures of enclosing-scope values and a symbolic position of the
control-flow node.  The oracle is computed on the resulting orders with an independent reference
(reachability / DFS cycle test), never with the library's own sort.
"""
from __future__ import annotations

import itertools
import operator

import onnx_ir as ir
from onnx_ir.passes.common import topological_sort

from engine import hist

LEVEL = "other"
TECHNIQUE = "symbolic execution (zsym, z3) of the real Graph.sort / Function.sort / TopologicalSortPass over graphs whose dependency edges, captures and initial order are symbolic; reference-checked orders; per-path native re-execution"


def _nested_nodes(n):
    for a in n.attributes.values():
        if isinstance(a, ir.Attr) and a.type == ir.AttributeType.GRAPH:
            for m in a.value:
                yield m
                yield from _nested_nodes(m)
        elif isinstance(a, ir.Attr) and a.type == ir.AttributeType.GRAPHS:
            for g in a.value:
                for m in g:
                    yield m
                    yield from _nested_nodes(m)


def _all_graphs(g):
    yield g
    for n in g:
        for a in n.attributes.values():
            if isinstance(a, ir.Attr) and a.type == ir.AttributeType.GRAPH:
                yield from _all_graphs(a.value)
            elif isinstance(a, ir.Attr) and a.type == ir.AttributeType.GRAPHS:
                for s in a.value:
                    yield from _all_graphs(s)


def _keyed(g, key="root"):
    """(stable key, graph) for g and every nested graph; keys are built from owner node names and attribute names, never from
    graph names, so graphs sharing a name stay distinct and the key survives reordering"""
    yield key, g
    for n in g:
        for an, a in n.attributes.items():
            if isinstance(a, ir.Attr) and a.type == ir.AttributeType.GRAPH:
                yield from _keyed(a.value, f"{key}/{n.name}.{an}")
            elif isinstance(a, ir.Attr) and a.type == ir.AttributeType.GRAPHS:
                for i, sg in enumerate(a.value):
                    yield from _keyed(sg, f"{key}/{n.name}.{an}[{i}]")


def needs(g):
    """reference dependency relation of graph g: node -> set of same-graph producers it must follow"""
    members = {id(n): n for n in g}
    dep = {}
    for n in g:
        req = set()
        for m in itertools.chain([n], _nested_nodes(n)):
            for v in m.inputs:
                if v is not None and v.producer() is not None and id(v.producer()) in members and v.producer() is not n:
                    req.add(id(v.producer()))
                elif v is not None and v.producer() is n and m is n:
                    req.add(id(n))  # self loop
        dep[id(n)] = req
    return dep


def order_valid(g):
    dep = needs(g)
    pos = {id(n): i for i, n in enumerate(g)}
    return all(pos[p] < pos[n] for n, req in dep.items() for p in req)


def has_cycle(root):
    """cycle in the cross-scope dependency relation (a node depends on producers of everything used in it or below it,
    and a producer nested in another graph drags that graph's owning node chain) — reference DFS."""
    # build a global relation over all nodes: n -> producers of values used by n or nested nodes; a producer that lives in
    # a nested graph of some node q is a dependency on q as well (q must come first) only if q is in an enclosing scope
    owner = {}

    def walk(g, own):
        for n in g:
            owner[id(n)] = own
            for a in n.attributes.values():
                if isinstance(a, ir.Attr) and a.type == ir.AttributeType.GRAPH:
                    walk(a.value, n)
                elif isinstance(a, ir.Attr) and a.type == ir.AttributeType.GRAPHS:
                    for s in a.value:
                        walk(s, n)

    walk(root, None)
    nodes = {}
    for g in _all_graphs(root):
        for n in g:
            nodes[id(n)] = n
    edges = {i: set() for i in nodes}
    for i, n in nodes.items():
        for v in n.inputs:
            if v is not None and v.producer() is not None and id(v.producer()) in nodes:
                edges[i].add(id(v.producer()))
        # the owner of a subgraph depends on everything inside it
        for m in _nested_nodes(n):
            edges[i].add(id(m))
    color = {}

    def dfs(u):
        color[u] = 1
        for w in edges[u]:
            if color.get(w) == 1:
                return True
            if color.get(w) is None and dfs(w):
                return True
        color[u] = 2
        return False

    return any(color.get(u) is None and dfs(u) for u in nodes)


# ---------------------------------------------------------------------------------------------


def build_flat(N, bits, perm_idx, extra):
    """N nodes with 2 outputs each; bits[(i,j)] = node i uses output0 of node j; extra bits: repeated input / second output / None."""
    outs = [[ir.Value(name=f"v{i}_0"), ir.Value(name=f"v{i}_1")] for i in range(N)]
    x = ir.Value(name="x")
    nodes = []
    for i in range(N):
        ins = [x, None] if extra["none"] else [x]
        for j in range(N):
            if i != j and bits[(i, j)]:
                ins.append(outs[j][1] if extra["second"] and j == 0 else outs[j][0])
                if extra["repeat"]:
                    ins.append(outs[j][0])
            if i == j and bits.get((i, i)):
                ins.append(outs[i][0])
        nodes.append(ir.Node("", f"Op{i}", ins, outputs=outs[i], name=f"n{i}"))
    perm = list(itertools.permutations(range(N)))[perm_idx]
    g = ir.Graph([x], [outs[N - 1][0]], nodes=[nodes[p] for p in perm], name="g")
    return g, nodes


def build_nested(depth, P):
    """main: a, b, ctl(If).  body of ctl: s0, s1 (depth 3: s1 is another If whose body holds t0).
    symbolic: which outer outputs each inner node captures, the initial order of every graph."""
    x = ir.Value(name="x")
    a = ir.Node("", "A", [x] + ([] if not P("a_uses_b") else []), name="a")
    b_in = [x]
    b = ir.Node("", "B", b_in, name="b")
    if P("a_uses_b"):
        a.resize_inputs(2)
        a.replace_input_with(1, b.outputs[0])
    if P("b_uses_a"):
        b.resize_inputs(2)
        b.replace_input_with(1, a.outputs[0])
    s0_in = [x]
    if P("s0_cap_a"):
        s0_in.append(a.outputs[0])
    if P("s0_cap_b"):
        s0_in.append(b.outputs[0])
    s0 = ir.Node("", "S0", s0_in, name="s0")
    if depth == 2:
        s1_in = [s0.outputs[0]] if P("s1_uses_s0") else [x]
        if P("s1_cap_b"):
            s1_in.append(b.outputs[0])
        s1 = ir.Node("", "S1", s1_in, name="s1")
        if P("s0_uses_s1"):  # together with s1_uses_s0: a cycle confined to the body
            s0.resize_inputs(len(s0.inputs) + 1)
            s0.replace_input_with(len(s0.inputs) - 1, s1.outputs[0])
        inner_nodes = [s0, s1]
    else:
        t0_in = [x]
        if P("t0_cap_a"):
            t0_in.append(a.outputs[0])
        if P("t0_cap_s0"):
            t0_in.append(s0.outputs[0])
        t0 = ir.Node("", "T0", t0_in, name="t0")
        deep = ir.Graph([], [t0.outputs[0]], nodes=[t0], name="body")  # same (non-empty) name as the enclosing body on purpose
        s1 = ir.Node("", "If", [x], attributes=[ir.AttrGraph("then_branch", deep)], name="s1")
        inner_nodes = [s0, s1]
    if P("inner_reversed"):
        inner_nodes = inner_nodes[::-1]
    body = ir.Graph([], [inner_nodes[-1].outputs[0]], nodes=inner_nodes, name="body")
    ctl_in = [x]
    if P("ctl_uses_b"):
        ctl_in.append(b.outputs[0])
    ctl = ir.Node("", "If", ctl_in, attributes=[ir.AttrGraph("then_branch", body)], name="ctl")
    if P("a_uses_ctl"):
        a.resize_inputs(3)
        a.replace_input_with(2, ctl.outputs[0])
    main_nodes = [a, b, ctl]
    perm = list(itertools.permutations(range(3)))[operator.index(P.raw("perm"))]
    g = ir.Graph([x], [ctl.outputs[0]], nodes=[main_nodes[p] for p in perm], name="main")
    return g


class Params:
    def __init__(self, P):
        self.P = P

    def __call__(self, name):
        return bool(self.P[name] != 0)

    def raw(self, name):
        return self.P[name]


def verdict(make, rewire=None):
    """Common oracle: `make()` builds a fresh graph (same structure every time); `rewire` = (i, j): after the first sort
    main-graph node i additionally uses node j's output."""
    problems = []
    g = make()
    graphs = list(_all_graphs(g))
    K = {id(gr): k for k, gr in _keyed(g)}
    before = {K[id(gr)]: [n.name for n in gr] for gr in graphs}
    was_valid = {K[id(gr)]: order_valid(gr) for gr in graphs}
    cyc = has_cycle(g)
    try:
        g.sort()
        raised = None
    except ValueError:
        raised = "ValueError"
    except Exception as e:  # noqa: BLE001
        raised = type(e).__name__
        problems.append(f"sort raised {raised}: {e}")
    after = {K[id(gr)]: [n.name for n in gr] for gr in graphs}
    if cyc:
        if raised != "ValueError":
            problems.append(f"dependencies contain a cycle but sort did not raise ValueError (raised={raised}); order {before} -> {after}")
        if after != before:
            problems.append(f"cycle: ValueError raised but an order changed: {before} -> {after}")
    else:
        if raised:
            problems.append(f"acyclic graph but sort raised {raised}")
        else:
            for gr in graphs:
                if sorted(after[K[id(gr)]]) != sorted(before[K[id(gr)]]):
                    problems.append(f"graph {gr.name} lost or gained nodes: {before[K[id(gr)]]} -> {after[K[id(gr)]]}")
                if not order_valid(gr):
                    problems.append(f"graph {gr.name} not topologically ordered after sort: {after[K[id(gr)]]} (was {before[K[id(gr)]]})")
                if was_valid[K[id(gr)]] and all(was_valid.values()) and after[K[id(gr)]] != before[K[id(gr)]]:
                    problems.append(f"graph {gr.name} was already ordered but changed: {before[K[id(gr)]]} -> {after[K[id(gr)]]}")
            # determinism: sorting again changes nothing; an isomorphic copy sorts identically; Function.sort and the pass agree
            g.sort()
            again = {K[id(gr)]: [n.name for n in gr] for gr in graphs}
            if again != after:
                problems.append(f"second sort changed the order: {after} -> {again}")
            g2 = make()
            g2.sort()
            after2 = {k: [n.name for n in gr] for k, gr in _keyed(g2)}
            if after2 != after:
                problems.append(f"an identical graph sorted differently: {after} vs {after2}")
            g3 = make()
            ir.Function("d", "f", graph=g3, attributes=[]).sort()
            after3 = {k: [n.name for n in gr] for k, gr in _keyed(g3)}
            if after3 != after:
                problems.append(f"Function.sort disagrees with Graph.sort: {after3} vs {after}")
            g4 = make()
            g4.opset_imports[""] = 18
            # the same structure once more as the body of a model-local function: the pass must sort every graph-like
            f5 = ir.Function("d", "f", graph=make(), attributes=[])
            f6 = ir.Function("d", "h", graph=make(), attributes=[])
            m = ir.Model(g4, ir_version=10, functions=[f5, f6])
            res = topological_sort.TopologicalSortPass()(m)
            after4 = {k: [n.name for n in gr] for k, gr in _keyed(res.model.graph)}
            if after4 != after:
                problems.append(f"TopologicalSortPass disagrees with Graph.sort: {after4} vs {after}")
            for fn in res.model.functions.values():
                after5 = {k: [n.name for n in gr] for k, gr in _keyed(fn.graph)}
                if after5 != after:
                    problems.append(f"TopologicalSortPass left function {fn.name} in another order than Function.sort gives: {after5} vs {after}")
            # history independence: after a successful sort, change a dependency WITHOUT touching any node list, sort again
            main_nodes = list(g)
            if len(main_nodes) >= 2 and rewire is not None:
                i, j = rewire
                ni, nj = main_nodes[i % len(main_nodes)], main_nodes[j % len(main_nodes)]
                if ni is not nj:
                    ni.resize_inputs(len(ni.inputs) + 1)
                    ni.replace_input_with(len(ni.inputs) - 1, nj.outputs[0])
                    cyc2 = has_cycle(g)
                    before2 = {K[id(gr)]: [n.name for n in gr] for gr in graphs}
                    try:
                        g.sort()
                        r2 = None
                    except ValueError:
                        r2 = "ValueError"
                    now = {K[id(gr)]: [n.name for n in gr] for gr in graphs}
                    if cyc2:
                        if r2 != "ValueError" or now != before2:
                            problems.append(f"after a sort, a rewiring that creates a cycle: raised={r2}, order {before2} -> {now}")
                    elif r2 is not None or not all(order_valid(gr) for gr in graphs):
                        problems.append(f"after a sort, {ni.name} was rewired to use {nj.name}; sorting again left {now} (raised={r2}), which is not a topological order")
    return (not problems), dict(before=before, after=after, cycle=cyc, raised=raised, problems=problems[:4])


def make_case(tier, key):
    kind = key[0]
    if kind == "flat":
        _, N, mode, extra_i = key[:4]
        block = key[4] if len(key) > 4 else None     # N=5: the 120 initial orders are split into blocks of 60 (one case each)
        extra = [dict(none=False, repeat=False, second=False), dict(none=True, repeat=True, second=True)][extra_i]
        pairs = [(i, j) for i in range(N) for j in range(N) if i != j and (mode == "full" or j < i)]
        if mode == "self":
            pairs = [(i, j) for i in range(N) for j in range(N) if j <= i]
        ranges = {f"e{i}{j}": (0, 1) for i, j in pairs}
        ranges["perm"] = (0, len(list(itertools.permutations(range(N)))) - 1) if block is None else (60 * block, 60 * block + 59)
        if N <= 3:
            ranges["rw_i"] = (0, N - 1)
            ranges["rw_j"] = (0, N - 1)

        def body(P):
            bits = {(i, j): bool(P[f"e{i}{j}"] != 0) for i, j in pairs}
            for i in range(N):
                for j in range(N):
                    bits.setdefault((i, j), False)
            pi = operator.index(P["perm"])
            rw = (operator.index(P["rw_i"]), operator.index(P["rw_j"])) if "rw_i" in P else None
            return verdict(lambda: build_flat(N, bits, pi, extra)[0], rewire=rw)

        name = f"flat[N={N}, edges {mode}, {'repeated/None/second-output inputs' if extra_i else 'plain inputs'}{'' if block is None else f', initial orders {60 * block}..{60 * block + 59}'}]"
    else:
        _, depth = key
        names = ["a_uses_b", "b_uses_a", "s0_cap_a", "s0_cap_b", "inner_reversed", "ctl_uses_b", "a_uses_ctl"]
        names += ["s1_uses_s0", "s1_cap_b", "s0_uses_s1"] if depth == 2 else ["t0_cap_a", "t0_cap_s0"]
        ranges = {n: (0, 1) for n in names}
        ranges["perm"] = (0, 5)
        ranges["rw"] = (0, 2)

        def body(P):
            # concretise every selector once so that every rebuild of the graph is identical
            Q = {k: operator.index(P[k]) for k in ranges}
            rw = [None, (0, 2), (1, 0)][Q["rw"]]
            return verdict(lambda: build_nested(depth, Params(Q)), rewire=rw)

        name = f"nested[depth {depth}]"

    def sig(args, obs):
        first = obs["problems"][0]
        for tag in ("after a sort", "left function", "cycle", "not topologically ordered", "already ordered", "second sort", "identical graph", "Function.sort", "TopologicalSortPass", "lost or gained", "raised"):
            if tag in first:
                return "C12:" + tag.replace(" ", "-")
        return "C12:other"

    def describe(args, obs):
        return f"{args}: " + "; ".join(obs["problems"][:2])

    return hist.Case(name, ranges, body, meta=dict(sig=sig, describe=describe))


def keys_for(tier):
    keys = [("flat", 2, "full", 0), ("flat", 3, "full", 0), ("flat", 3, "full", 1), ("flat", 3, "self", 0), ("flat", 4, "dag", 0), ("nested", 2), ("nested", 3)]
    if tier == "thorough":
        keys += [("flat", 4, "full", 0), ("flat", 4, "dag", 1), ("flat", 5, "dag", 0, 0), ("flat", 5, "dag", 0, 1)]
    return keys


def run(chk, tier):
    chk.fn("_core.Graph.sort", "_core.Function.sort", "passes.common.topological_sort.TopologicalSortPass", "traversal.RecursiveGraphIterator", "_core.Graph.extend (re-ordering)")
    chk.assume(
        "one symbolic boolean per potential dependency edge, a symbolic initial permutation; nested families: symbolic captures of enclosing-scope outputs, symbolic inner order",
        "reference notions (needs / order_valid / has_cycle) are independent re-statements of the property, computed by DFS over public accessors",
        "'already in such an order' is asserted only when every graph of the model is already ordered",
    )
    chk.bounds = dict(single_scope="all directed graphs on N<=3 nodes x all permutations; N=4 DAG edge sets x all 24 permutations" + ("; N=4 all 4096 edge sets; N=5 DAGs" if tier == "thorough" else ""),
                      nested="3 main nodes + If body of 2 nodes (depth 2) / + inner If with 1 node (depth 3), all capture patterns x 6 main orders x 2 inner orders")
    chk.not_decided += ["graphs with more nodes / deeper nesting than the bound", "GRAPHS-typed attributes (several bodies per node)"]
    hist.run_cases(chk, "harness.C12", "make_case", keys_for(tier))
    chk.extra["rule"] = "one case per family (N, edge universe, input style) / nesting depth; every assignment of the edge booleans and every permutation is a feasible path decided by z3"


def replay(rec):
    case = make_case("quick", tuple(rec["key"]))
    ok, obs = case.body(dict(rec["args"]))
    print(obs)
    return not ok
