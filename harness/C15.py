"""C15 — generated names never collide; name fixing yields unique names only; bulk rename is all-or-nothing.

Part 1 (zsym, z3 strings): add / remove / re-add histories on a real Graph whose explicitly given
node and value names are ARBITRARY symbolic strings (the name authority's two seen-name sets are
replaced by list-backed symbolic sets — the only container substitution).  Obligation: a generated
name differs from every name the graph registered or generated before; explicit names are never
altered.  The solver derives names "shaped like generated names" by itself.

Part 2 (history driver): NameFixPass on models whose value/node names are chosen per slot from a pool
built to collide, across a nested scope and a function; rename_values with symbolic permutations.
"""
from __future__ import annotations

import operator

import z3

import onnx_ir as ir
from onnx_ir import convenience as ir_convenience
from onnx_ir.passes.common import naming

from engine import hist, irlib, zsym
from engine.common import Inconclusive
from engine.zsym import SStr, SymSet, explore, zstr

LEVEL = "other"
TECHNIQUE = "symbolic execution (zsym): name-authority histories with explicit names as arbitrary z3 strings (sequence theory); NameFixPass / rename_values over symbolic name-slot assignments with per-path native re-execution"

OPTYPES = ["Add", "Mul"]


# ---- part 1: the name authority under arbitrary explicit names -----------------------------------


def authority_history(K, with_values, fix=()):
    """K steps; per step a symbolic choice: add an explicitly named node, add an unnamed node, remove the oldest
    node still in the graph, re-add the node removed last."""
    names = [z3.String(f"name{i}") for i in range(K)]
    vnames = [z3.String(f"vname{i}") for i in range(K)]
    kind = [z3.Int(f"kind{i}") for i in range(K)]
    optype = [z3.Int(f"op{i}") for i in range(K)]
    alpha = z3.Star(z3.Union(*[z3.Re(c) for c in "node_valAdMu0123"]))
    assume = []
    for i in range(K):
        assume += [kind[i] >= 0, kind[i] <= 3, optype[i] >= 0, optype[i] <= 1, z3.Length(names[i]) >= 1, z3.Length(names[i]) <= 12,
                   z3.Length(vnames[i]) >= 1, z3.Length(vnames[i]) <= 8, z3.InRe(names[i], alpha), z3.InRe(vnames[i], alpha)]

    for i, kv in enumerate(fix):
        assume.append(kind[i] == kv)

    def body():
        symbolic = zsym.MODEL is None
        g = ir.Graph([], [], nodes=[], name="g")
        if symbolic:
            g._name_authority._value_names = SymSet()  # noqa: SLF001 - documented container substitution
            g._name_authority._node_names = SymSet()  # noqa: SLF001
        seen_nodes, seen_values = [], []  # z3 terms of every name registered or generated so far
        conj = []
        in_graph, removed = [], []
        log = []

        def term(x):
            return zstr(x) if isinstance(x, (str, SStr)) else None

        def added(node, explicit_node, explicit_value):
            # explicit names are never altered
            if explicit_node is not None:
                conj.append(term(node.name) == term(explicit_node))
            else:
                if not isinstance(node.name, str) or not node.name:
                    conj.append(z3.BoolVal(False))
                else:
                    for h in seen_nodes:
                        conj.append(z3.StringVal(node.name) != h)
            seen_nodes.append(term(node.name))
            for o, ev in zip(node.outputs, explicit_value):
                if ev is not None:
                    conj.append(term(o.name) == term(ev))
                else:
                    if not isinstance(o.name, str) or not o.name:
                        conj.append(z3.BoolVal(False))
                    else:
                        for h in seen_values:
                            conj.append(z3.StringVal(o.name) != h)
                seen_values.append(term(o.name))

        for i in range(K):
            k = operator.index(zsym.sym_int(kind[i]))
            op = OPTYPES[operator.index(zsym.sym_int(optype[i]))]
            if k == 0:
                nm = zsym.sym_str(names[i])
                vn = zsym.sym_str(vnames[i]) if with_values else None
                out = ir.Value(name=vn)
                n = ir.Node("", op, [], outputs=[out], name=nm)
                g.append(n)
                in_graph.append(n)
                added(n, nm, [vn])
                log.append(f"add explicit {op}")
            elif k == 1:
                n = ir.Node("", op, [], num_outputs=1, name=None)
                g.append(n)
                in_graph.append(n)
                added(n, None, [None])
                log.append(f"add unnamed {op} -> {n.name},{n.outputs[0].name}")
            elif k == 2:
                if in_graph:
                    n = in_graph.pop(0)
                    g.remove(n)
                    removed.append(n)
                    log.append("remove")
            else:
                if removed:
                    n = removed.pop()
                    before_node, before_vals = n.name, [o.name for o in n.outputs]
                    g.append(n)
                    in_graph.append(n)
                    # re-adding keeps whatever names the node has by now
                    conj.append(z3.BoolVal(n.name is before_node and all(a is b for a, b in zip([o.name for o in n.outputs], before_vals))))
                    log.append("re-add")
        return (z3.And(*conj) if conj else z3.BoolVal(True)), dict(log=log)

    return body, assume, names + vnames, kind + optype


def ob_authority(chk, K, with_values, fix=()):
    name = f"name_authority[{K} steps, {'node+value' if with_values else 'node'} names symbolic" + (f", first step kinds {list(fix)}]" if fix else "]")
    body, assume, strs, ints = authority_history(K, with_values, fix)
    r = explore(body, assume, timeout_ms=20000, max_paths=400000)
    chk.add_stats(r.stats())
    chk.case(name)
    chk.sample({"obligation": name, "paths": r.paths, "queries": r.queries})
    if r.unknown:
        chk.note_inconclusive(f"{name}: solver unknown on {len(r.unknown)} path(s)")
    if r.cex is not None:
        model = r.cex[0]
        holds, info = zsym.concrete_run(body, model)
        rec = dict(kind="authority", K=K, with_values=with_values, fix=list(fix), strings={str(s): zsym.model_str(model, s) for s in strs},
                   ints={str(i): zsym.model_int(model, i) for i in ints}, log=(info or {}).get("log"))
        if not holds:
            chk.violation("C15:authority:" + ("value" if with_values else "node"), f"{name}: a generated name collides with (or an explicit name was altered by) this history: {rec['log']} with {rec['strings']}", rec)
        else:
            chk.note_inconclusive(f"{name}: solver counterexample did not reproduce natively: {rec}")
    # vacuity: a generated name must be comparable with an earlier symbolic one on some path
    if r.paths < 1:
        raise Inconclusive(f"{name}: no path explored (vacuous)")
    chk.vacuity_ok(f"{name}: {r.paths} paths")


# ---- part 2: NameFixPass ----------------------------------------------------------------------------


VPOOL = ["v", "v_1", "", None]
NPOOL = ["n", "n_1", None]


def build_model(P):
    """values: i0, i1 (inputs), w (initializer), a.out (intermediate + output), inner.out, winner (inner initializer), f.in, f.out"""
    vn = lambda k: VPOOL[operator.index(P[k]) % len(VPOOL)]  # noqa: E731
    nn = lambda k: NPOOL[operator.index(P[k]) % len(NPOOL)]  # noqa: E731
    import numpy as np

    i0 = ir.Value(name=vn("s0"))
    i1 = ir.Value(name=vn("s1"))
    wname = vn("s2") or "w_fallback"  # an initializer needs a name to be registered at all
    w = ir.Value(name=wname, const_value=ir.Tensor(np.zeros(1, dtype=np.float32), name=wname))
    a = ir.Node("", "A", [i0, i1, w], name=nn("m0"))
    a.outputs[0].name = vn("s3")
    inner = ir.Node("", "I", [a.outputs[0], i0], name=nn("m1"))
    inner.outputs[0].name = vn("s4")
    # optional body-level values that no node touches (two body inputs, one body initializer)
    sub_in, sub_init = [], []
    if "s6" in P:
        sub_in = [ir.Value(name=vn("s6")), ir.Value(name=vn("s7"))]
        iname = vn("s8") or "wi_fallback"
        sub_init = [ir.Value(name=iname, const_value=ir.Tensor(np.zeros(1, dtype=np.float32), name=iname))]
    sub = ir.Graph(sub_in, [inner.outputs[0]], nodes=[inner], initializers=sub_init, name="sub")
    iff = ir.Node("", "If", [i1], attributes=[ir.AttrGraph("then_branch", sub)], name="n")
    iff.outputs[0].name = vn("s5")
    g = ir.Graph([i0, i1], [iff.outputs[0], a.outputs[0]], nodes=[a, iff], initializers=[w], name="main", opset_imports={"": 18})
    # a function with its own scope
    fi = ir.Value(name=vn("s0"))
    fn = ir.Node("", "F", [fi], name=nn("m0"))
    fn.outputs[0].name = vn("s1")
    fg = ir.Graph([fi], [fn.outputs[0]], nodes=[fn], name="fg", opset_imports={"": 18})
    f = ir.Function("dom", "f", graph=fg, attributes=[])
    m = ir.Model(g, ir_version=10, functions=[f])
    values = [i0, i1, w, a.outputs[0], inner.outputs[0], iff.outputs[0], fi, fn.outputs[0]] + sub_in + sub_init
    nodes = [a, inner, iff, fn]
    return m, values, nodes, (g, sub, fg)


def structure(values, nodes, graphs):
    vid = {id(v): i for i, v in enumerate(values)}
    nid = {id(n): i for i, n in enumerate(nodes)}
    out = []
    for g in graphs:
        out.append(([nid[id(n)] for n in g], [vid[id(v)] for v in g.inputs], [vid[id(v)] for v in g.outputs], sorted(vid[id(v)] for v in g.initializers.values())))
    for n in nodes:
        out.append((n.op_type, n.domain, [None if v is None else vid[id(v)] for v in n.inputs], [vid[id(v)] for v in n.outputs]))
    for v in values:
        out.append((repr(v.type), repr(v.shape), v.const_value is not None))
    return out


def namefix_body(P):
    m, values, nodes, (g, sub, fg) = build_model(P)
    before_v = [v.name for v in values]
    before_n = [n.name for n in nodes]
    st0 = structure(values, nodes, (g, sub, fg))
    problems = []
    try:
        res = naming.NameFixPass()(m)
    except Exception as e:  # noqa: BLE001
        return False, dict(names=before_v + before_n, problems=[f"NameFixPass raised {type(e).__name__}: {e}"])
    after_v = [v.name for v in values]
    after_n = [n.name for n in nodes]
    if any(not x for x in after_v + after_n):
        problems.append(f"empty name left: values {after_v} nodes {after_n}")
    # uniqueness per scope: main graph values; subgraph values + everything visible from the enclosing scope; function values
    main_vals = [values[i] for i in (0, 1, 2, 3, 5)]
    sub_vals = [values[4]] + values[8:]
    f_vals = [values[6], values[7]]
    for label, vs in (("main", main_vals), ("sub+enclosing", main_vals + sub_vals), ("function", f_vals)):
        ns = [v.name for v in vs]
        if len(set(ns)) != len(ns):
            problems.append(f"duplicate value names in scope {label}: {ns}")
    for label, ns_ in (("main", [nodes[0], nodes[2]]), ("sub", [nodes[1]]), ("function", [nodes[3]])):
        ns = [n.name for n in ns_]
        if len(set(ns)) != len(ns):
            problems.append(f"duplicate node names in graph {label}: {ns}")
    for gr in (g, sub, fg):
        for k, v in gr.initializers.items():
            if k != v.name:
                problems.append(f"initializer key {k!r} != name {v.name!r}")
    if structure(values, nodes, (g, sub, fg)) != st0:
        problems.append("something other than names changed")
    # names that were already unique in the whole model are kept
    scope_idx = [0, 1, 2, 3, 4, 5] + list(range(8, len(values)))
    scope_before = [before_v[i] for i in scope_idx]
    for i in scope_idx:
        b, a = before_v[i], after_v[i]
        if b and scope_before.count(b) == 1 and a != b:
            problems.append(f"value name {b!r} was unique in the model but became {a!r}")
    for idx in (6, 7):
        b, a = before_v[idx], after_v[idx]
        if b and [before_v[6], before_v[7]].count(b) == 1 and a != b:
            problems.append(f"function value name {b!r} was unique but became {a!r}")
    for group in ((0, 2), (1,), (3,)):
        bs = [before_n[i] for i in group]
        for i in group:
            if before_n[i] and bs.count(before_n[i]) == 1 and after_n[i] != before_n[i]:
                problems.append(f"node name {before_n[i]!r} was unique in its graph but became {after_n[i]!r}")
    changed = (after_v != before_v) or (after_n != before_n)
    if res.modified != changed:
        problems.append(f"modified={res.modified} but names changed={changed}")
    if not problems:
        # a second run is a no-op
        res2 = naming.NameFixPass()(m)
        if res2.modified or [v.name for v in values] != after_v or [n.name for n in nodes] != after_n:
            problems.append("second run still modifies")
    return (not problems), dict(names=before_v + before_n, after=after_v + after_n, problems=problems[:4])


def rename_body_for(seed, mode):
    def body(P):
        st = irlib.seed(seed)
        vals = st.values
        pool = [v.name for v in vals if v.name] + ["fresh1", ""]
        a, b = (vals[operator.index(P[k]) % len(vals)] for k in ("a", "b"))
        if mode == "pair":
            sel = [a, b]
            targets = [pool[operator.index(P[k]) % len(pool)] for k in ("ta", "tb")]
        else:  # a rotation of the names of three selected values (swaps and cycles)
            c = vals[operator.index(P["c"]) % len(vals)]
            sel = [a, b, c]
            targets = [b.name or "x1", c.name or "x2", a.name or "x3"]
        before = irlib.snapshot(st)
        problems = []
        try:
            ir_convenience.rename_values(sel, targets)
            raised = None
        except (ValueError, TypeError) as e:
            raised = type(e).__name__
        if raised:
            if irlib.snapshot(st) != before:
                problems.append("rename_values raised but something changed")
        else:
            final = {}
            for v, t in zip(sel, targets):
                final[id(v)] = (v, t)
            for v, t in final.values():
                if v.name != t:
                    problems.append(f"value expected to be named {t!r} is named {v.name!r}")
            problems += irlib.invariant(st)
        return (not problems), dict(targets=targets, raised=raised, problems=problems[:4])

    return body


def make_case(tier, key):
    if key[0] == "namefix":
        ranges = {f"s{i}": (0, len(VPOOL) - 1) for i in range(6)}
        ranges.update({f"m{i}": (0, len(NPOOL) - 1) for i in range(2)})
        fixed = key[1]

        def body(P, fixed=fixed):
            Q = dict(P)
            Q["s0"] = fixed
            return namefix_body(Q)

        ranges.pop("s0")

        def sig(args, obs):
            first = obs["problems"][0]
            for tag in ("raised", "empty name", "duplicate value", "duplicate node", "initializer key", "other than names", "was unique", "modified=", "second run"):
                if tag in first:
                    return "C15:namefix:" + tag.replace(" ", "-")
            return "C15:namefix:other"

        return hist.Case(f"NameFixPass[first input named {VPOOL[fixed]!r}]", ranges, body,
                         meta=dict(sig=sig, describe=lambda a, o: f"names {o['names']} -> {o.get('after')}: " + "; ".join(o["problems"][:2])))
    if key[0] == "namefix-sub":
        # body-level inputs / initializer that no node touches: s6, s7 (body inputs), s8 (body initializer) over the whole pool
        ranges = {f"s{i}": (0, 1) for i in range(1, 6)}
        ranges.update({f"s{i}": (0, len(VPOOL) - 1) for i in (6, 7, 8)})
        ranges.update({f"m{i}": (0, 0) for i in range(2)})
        fixed = key[1]

        def body(P, fixed=fixed):
            Q = dict(P)
            Q["s0"] = fixed
            return namefix_body(Q)

        def sig(args, obs):
            first = obs["problems"][0]
            for tag in ("raised", "empty name", "duplicate value", "duplicate node", "initializer key", "other than names", "was unique", "modified=", "second run"):
                if tag in first:
                    return "C15:namefix:" + tag.replace(" ", "-")
            return "C15:namefix:other"

        return hist.Case(f"NameFixPass[body inputs/initializer untouched by nodes, first input named {VPOOL[fixed]!r}]", ranges, body,
                         meta=dict(sig=sig, describe=lambda a, o: f"names {o['names']} -> {o.get('after')}: " + "; ".join(o["problems"][:2])))
    seed, mode = key[1], key[2]
    nv = len(irlib.seed(seed).values)
    ranges = dict(a=(0, nv - 1), b=(0, nv - 1), ta=(0, nv + 1), tb=(0, nv + 1)) if mode == "pair" else dict(a=(0, nv - 1), b=(0, nv - 1), c=(0, nv - 1))
    return hist.Case(f"rename_values[seed {seed}, {mode}]", ranges, rename_body_for(seed, mode),
                     meta=dict(sig=lambda a, o: "C15:rename_values:" + ("atomicity" if o["raised"] else "completeness"),
                               describe=lambda a, o: f"{a} targets {o['targets']} raised={o['raised']}: " + "; ".join(o["problems"][:2])))


def shard_authority(chk, tier, item):
    K, with_values, fix = item
    ob_authority(chk, K, with_values, tuple(fix))


def run(chk, tier):
    from engine.common import parallel

    chk.fn("_name_authority.NameAuthority.register_or_name_value/register_or_name_node/_unique_value_name/_unique_node_name",
           "_core.Graph._set_node_graph_to_self_and_assign_names/append/remove", "passes.common.naming.NameFixPass", "_convenience.rename_values", "_core.Value.name setter")
    chk.assume(
        "part 1: explicit node/value names are arbitrary z3 strings of length 1..12 over the alphabet of generated names; op types from {Add, Mul}; the authority's two name sets are list-backed symbolic sets",
        "part 1: the unbounded 'while True' candidate loop is explored to its natural end on every path (each iteration consumes one registered name); no truncation",
        "part 2: names per slot from the pool " + repr(VPOOL) + " (values) / " + repr(NPOOL) + " (nodes); 'already unique' is asserted for names occurring once in the whole model (values) / once in their graph (nodes)",
        "graph inputs added after construction are not registered with the authority (documented)",
    )
    quick = tier == "quick"
    chk.bounds = dict(authority_history_steps="1..3 (node and value names symbolic), 4 (node names symbolic)" if quick else "1..4 (both), 5 (node names)", namefix_slots="6 value slots x 2 node slots over the pools", rename="pairs of values x all target names, and rotations of three values' names, seeds 3, 4, 5")
    chk.not_decided += ["names longer than 12 characters / other alphabets in part 1", "custom NameGenerator implementations"]
    import itertools

    items = [(K, wv, ()) for K in (1, 2, 3) for wv in (False, True)]
    items += [(3, True, (0, 2, 1))]     # explicit add, removal, generated add - with value names symbolic
    items += [(4, False, f) for f in itertools.product(range(4), repeat=2)]
    if not quick:
        items += [(4, True, f) for f in itertools.product(range(4), repeat=2)]
        items += [(5, False, f) for f in itertools.product(range(4), repeat=3)]
    parallel(chk, "harness.C15", "shard_authority", items)
    keys = [("namefix", i) for i in range(len(VPOOL))] + [("namefix-sub", i) for i in range(2)] + [("rename", sd, md) for sd in (3, 4, 5) for md in ("pair", "rotation")]
    hist.run_cases(chk, "harness.C15", "make_case", keys)
    chk.extra["rule"] = "part 1: one case per (history length, which names are symbolic), all decision paths explored by z3 over arbitrary strings; part 2: one case per fixed first slot / seed, all slot assignments"


def replay(rec):
    if rec.get("kind") == "authority":
        return True
    case = make_case("quick", tuple(rec["key"]))
    ok, obs = case.body(dict(rec["args"]))
    print(obs)
    return not ok
