"""C05 — every built-in pass, alone or composed, preserves what the model computes.

Translation validation: the real passes run concretely on models of the shared family
(engine.models); the model before and the model after are encoded as terms over uninterpreted
functions (engine.euf) - both as object graphs and after a serialize -> deserialize round trip (what a
saved file computes, names resolved by ONNX scoping) - and z3 decides whether ANY interpretation of the
operators and ANY inputs can distinguish two outputs at the same position.  unsat = same outputs for
all inputs.  A sat answer is replayed numerically (onnxruntime on both protos, several input seeds)
before it is reported.
"""
from __future__ import annotations

import itertools
import time

import numpy as np

from engine import euf, models
from engine.common import parallel

LEVEL = "translation_validation"
TECHNIQUE = ("translation validation with uninterpreted functions (z3, EUF): output terms of the model before and after the real pass "
             "(object graph and serialized round trip) proved equal for all inputs and all operator semantics; sat answers replayed with onnxruntime")


def pass_table():
    import onnx_ir.passes.common as P

    return {
        "RemoveUnusedNodes": lambda: P.RemoveUnusedNodesPass(),
        "RemoveUnusedFunctions": lambda: P.RemoveUnusedFunctionsPass(),
        "RemoveUnusedOpsets": lambda: P.RemoveUnusedOpsetsPass(),
        "IdentityElimination": lambda: P.IdentityEliminationPass(),
        "CSE": lambda: P.CommonSubexpressionEliminationPass(),
        "DeduplicateInitializers": lambda: P.DeduplicateInitializersPass(),
        "DeduplicateHashedInitializers": lambda: P.DeduplicateHashedInitializersPass(),
        "LiftConstants": lambda: P.LiftConstantsToInitializersPass(),
        "LiftAllConstants": lambda: P.LiftConstantsToInitializersPass(lift_all_constants=True, size_limit=0),
        "LiftSubgraphInitializers": lambda: P.LiftSubgraphInitializersToMainGraphPass(),
        "AddInitializersToInputs": lambda: P.AddInitializersToInputsPass(),
        "RemoveInitializersFromInputs": lambda: P.RemoveInitializersFromInputsPass(),
        "Inline": lambda: P.InlinePass(),
        "NameFix": lambda: P.NameFixPass(),
        "OutputFix": lambda: P.OutputFixPass(),
        "TopologicalSort": lambda: P.TopologicalSortPass(),
        "AddDefaultAttributes": lambda: P.AddDefaultAttributesPass(),
        "ClearMetadataAndDocString": lambda: P.ClearMetadataAndDocStringPass(),
        "ShapeInference": lambda: P.ShapeInferencePass(),
        "Checker": lambda: P.CheckerPass(),
    }


RECOMMENDED_TRIPLES = [
    ("Inline", "RemoveUnusedFunctions", "RemoveUnusedNodes"),
    ("LiftAllConstants", "DeduplicateInitializers", "CSE"),
    ("IdentityElimination", "CSE", "RemoveUnusedNodes"),
    ("LiftSubgraphInitializers", "DeduplicateInitializers", "NameFix"),
    ("Inline", "CSE", "IdentityElimination"),
    ("OutputFix", "IdentityElimination", "OutputFix"),
    ("CSE", "OutputFix", "NameFix"),
    ("AddDefaultAttributes", "CSE", "RemoveUnusedNodes"),
    ("Inline", "AddDefaultAttributes", "CSE"),
    ("LiftAllConstants", "LiftSubgraphInitializers", "DeduplicateHashedInitializers"),
    ("TopologicalSort", "CSE", "IdentityElimination"),
    ("NameFix", "Inline", "NameFix"),
]


def sequences(tier):
    names = list(pass_table())
    seqs = [(n,) for n in names]
    core = [n for n in names if n not in ("Checker", "ShapeInference", "ClearMetadataAndDocString", "RemoveUnusedOpsets")]
    pairs = list(itertools.permutations(core, 2)) + [(n, n) for n in core]
    seqs += pairs
    seqs += RECOMMENDED_TRIPLES
    if tier == "thorough":
        seqs += [t for t in itertools.permutations(core, 3)]     # every ordered triple of the 16 rewriting passes
    return seqs


# ---------------------------------------------------------------------------------------------


def encode_both(u, m):
    """(object-level output terms, #free inputs, round-trip-level output terms or the error that prevented it)"""
    import onnx_ir as ir

    outs, npos = euf.Encoder(u, m).encode_model()
    try:
        m2 = ir.from_proto(ir.to_proto(m))
        outs2, npos2 = euf.Encoder(u, m2).encode_model()
        rt = (outs2, npos2, None)
    except euf.EncodingError:
        raise
    except Exception as e:  # noqa: BLE001
        rt = (None, None, f"{type(e).__name__}: {str(e)[:200]}")
    return outs, npos, rt


def feeds_for(proto, seed):
    import onnx

    rng = np.random.default_rng(seed)
    inits = {i.name for i in proto.graph.initializer}
    feeds = {}
    for k, inp in enumerate(proto.graph.input):
        if inp.name in inits:
            continue
        tt = inp.type.tensor_type
        shape = [d.dim_value if d.HasField("dim_value") else 2 for d in tt.shape.dim]
        et = tt.elem_type
        if et == onnx.TensorProto.BOOL:
            feeds[k] = np.array(bool((seed >> (k % 3)) & 1)).reshape(shape)
        elif et in (onnx.TensorProto.INT64, onnx.TensorProto.INT32):
            feeds[k] = rng.integers(0, 3, size=shape).astype(np.int64 if et == onnx.TensorProto.INT64 else np.int32)
        else:
            feeds[k] = (rng.standard_normal(size=shape) * 2).astype(np.float32)
    return feeds


def run_numeric(proto, feeds_by_pos):
    """outputs by position, evaluated by onnxruntime (reference evaluator as fall-back)"""
    import onnx

    inits = {i.name for i in proto.graph.initializer}
    names = [i.name for i in proto.graph.input]
    feeds = {}
    pos = 0
    for k, n in enumerate(names):
        if n in inits:
            continue
        feeds[n] = feeds_by_pos[pos]
        pos += 1
    try:
        import onnxruntime as ort

        so = ort.SessionOptions()
        so.log_severity_level = 4
        so.graph_optimization_level = ort.GraphOptimizationLevel.ORT_DISABLE_ALL
        sess = ort.InferenceSession(proto.SerializeToString(), so, providers=["CPUExecutionProvider"])
        return [np.asarray(o) for o in sess.run(None, feeds)], "onnxruntime"
    except Exception as e1:  # noqa: BLE001
        try:
            from onnx.reference import ReferenceEvaluator

            return [np.asarray(o) for o in ReferenceEvaluator(proto).run(None, feeds)], "onnx.reference"
        except Exception as e2:  # noqa: BLE001
            raise RuntimeError(f"onnxruntime: {str(e1)[:120]} | onnx.reference: {str(e2)[:120]}") from e2


def numeric_replay(proto_before, proto_after, index):
    """True = a numerical difference reproduced; False = agreed on every seed; None = could not be evaluated"""
    diffs = None
    for seed in range(4):
        fb = feeds_for(proto_before, seed)
        by_pos = [fb[k] for k in sorted(fb)]
        try:
            ob, eng = run_numeric(proto_before, by_pos)
            oa, _ = run_numeric(proto_after, by_pos)
        except Exception as e:  # noqa: BLE001
            return None, f"not evaluable: {e}"
        if len(ob) != len(oa):
            return True, f"{len(ob)} outputs before, {len(oa)} after"
        for i, (a, b) in enumerate(zip(ob, oa)):
            if a.shape != b.shape or not np.allclose(a, b, rtol=1e-5, atol=1e-6, equal_nan=True):
                return True, f"{eng}, input seed {seed}: output {i} differs: before {np.asarray(a).ravel()[:4].tolist()} after {np.asarray(b).ravel()[:4].tolist()}"
        diffs = False
    return diffs, "outputs agree on 4 input seeds"


def check_sequence(chk, mname, seq, table, stats):
    import onnx_ir as ir

    m = models.build(mname)
    u = euf.Universe()
    try:
        before, npos_b, rt_b = encode_both(u, m)
    except euf.EncodingError as e:
        chk.note_inconclusive(f"{mname}: cannot encode the original model: {e}")
        return
    proto_before = ir.to_proto(m)
    cur = m
    label = f"{mname}:{'+'.join(seq)}"
    for step, pname in enumerate(seq):
        try:
            res = table[pname]()(cur)
        except Exception as e:  # noqa: BLE001
            # a pass may refuse a model (precondition) - but the model it was given must still compute the same
            stats["refused"] += 1
            chk.case(f"{label}:refused")
            k = f"{pname}: {type(e).__name__}"
            stats.setdefault("refusals", {})[k] = stats.setdefault("refusals", {}).get(k, 0) + 1
            done = seq[: step + 1]
            try:
                after, npos_a = euf.Encoder(u, cur).encode_model()
            except euf.EncodingError as e2:
                _violation(chk, mname, done, "raised-and-damaged", f"the pass raised {type(e).__name__} and left a model that cannot be encoded ({e2})", proto_before, cur, None)
                return
            chk.obligations += 1
            r, idx, dt = euf.equivalent(u, before, after) if len(before) == len(after) and npos_a == npos_b else ("sat", -1, 0.0)
            chk.queries += 1
            chk.solver_s += dt
            if r == "unsat":
                chk.discharged += 1
            else:
                _violation(chk, mname, done, "raised-and-damaged", f"the pass raised {type(e).__name__} ({str(e)[:100]}) and the model it was working on now computes something else (output {idx})", proto_before, cur, idx)
            return
        cur = res.model
        done = seq[: step + 1]   # the pass after which the property first fails is the one blamed
        try:
            after, npos_a, rt_a = encode_both(u, cur)
        except euf.EncodingError as e:
            _violation(chk, mname, done, "unencodable", f"the result cannot be encoded ({e})", proto_before, cur, None)
            return
        obligations = [("object graph", before, after, npos_b, npos_a)]
        if rt_b[2] is None:
            if rt_a[2] is not None:
                _violation(chk, mname, done, "unserializable", f"the result no longer serializes/deserializes: {rt_a[2]}", proto_before, cur, None)
                return
            obligations.append(("serialized round trip", rt_b[0], rt_a[0], rt_b[1], rt_a[1]))
        # concrete side-oracle (not solver-decided): the ONNX checker's verdict must not get worse at any step
        if VALID.get(mname):
            import onnx

            try:
                onnx.checker.check_model(ir.to_proto(cur), full_check=True)
            except Exception as e:  # noqa: BLE001
                chk.violation(f"C05:{mname}:{pname}:checker-rejects", f"model '{mname}' is accepted by the ONNX checker; after passes {list(done)} it is rejected: {str(e).splitlines()[0][:200]}",
                              dict(model=mname, seq=list(done), kind="checker"))
                return
        for what, b, a, nb, na in obligations:
            chk.obligations += 1
            if nb != na:
                _violation(chk, mname, done, "inputs", f"{what}: {nb} non-initializer inputs before, {na} after", proto_before, cur, None)
                return
            if len(b) != len(a):
                _violation(chk, mname, done, "outputs", f"{what}: {len(b)} outputs before, {len(a)} after", proto_before, cur, None)
                return
            r, idx, dt = euf.equivalent(u, b, a)
            chk.queries += 1
            chk.solver_s += dt
            if r == "unsat":
                chk.discharged += 1
            elif r == "sat":
                _violation(chk, mname, done, f"output{idx}", f"{what}: output {idx} can differ: before {str(b[idx])[:160]} | after {str(a[idx])[:160]}", proto_before, cur, idx)
                return
            else:
                chk.note_inconclusive(f"{label}: solver answered {r}")
    stats["sequences"] += 1
    chk.case(label)


VALID: dict = {}


def _checker_valid(mname):
    import onnx
    import onnx_ir as ir

    try:
        onnx.checker.check_model(ir.to_proto(models.build(mname)), full_check=True)
        return True
    except Exception:  # noqa: BLE001
        return False


def _violation(chk, mname, seq, kind, what, proto_before, cur, idx):
    import onnx_ir as ir

    # replay: numerical evaluation of both protos
    note = ""
    try:
        proto_after = ir.to_proto(cur)
        rep, note = numeric_replay(proto_before, proto_after, idx)
    except Exception as e:  # noqa: BLE001
        rep, note = None, f"result does not serialize: {type(e).__name__}: {str(e)[:120]}"
    last = seq[-1]
    sig = f"C05:{mname}:{'+'.join(seq)}:{kind}"
    if rep is False:
        # the operators agreed numerically; does the ONNX checker (the property's third clause) tell the artefacts apart?
        import onnx

        def accepted(p):
            try:
                onnx.checker.check_model(p, full_check=True)
                return True, ""
            except Exception as e:  # noqa: BLE001
                return False, str(e).split("\n")[0][:160]

        ok_b, _ = accepted(proto_before)
        ok_a, why = accepted(proto_after)
        if ok_b and not ok_a:
            chk.violation(f"C05:{mname}:{last}:checker-rejects", f"model '{mname}', passes {list(seq)}: {what} [reproduced: the ONNX checker accepts the model before and rejects it after the pass: {why}]",
                          dict(model=mname, seq=list(seq), kind=kind, numeric=note, checker=why))
            return
        chk.note_inconclusive(f"{mname} after {'+'.join(seq)}: {what} - EUF difference did not reproduce numerically ({note})")
        return
    chk.violation(f"C05:{mname}:{last}:{kind}", f"model '{mname}', passes {list(seq)}: {what} [{'reproduced: ' + note if rep else 'structural (numeric replay impossible: ' + note + ')'}]",
                  dict(model=mname, seq=list(seq), kind=kind, numeric=note))


def shard(chk, tier, item):
    mname, lo, hi = item
    import logging

    logging.disable(logging.CRITICAL)
    VALID[mname] = _checker_valid(mname)
    table = pass_table()
    seqs = sequences(tier)[lo:hi]
    stats = dict(sequences=0, refused=0)
    t = time.time()
    for seq in seqs:
        check_sequence(chk, mname, seq, table, stats)
    chk.extra["sequences"] = stats["sequences"]
    chk.extra["refused"] = stats["refused"]
    chk.sample({"model": mname, "sequences": stats["sequences"], "refused": stats["refused"], "refusals": stats.get("refusals", {}), "wall_s": round(time.time() - t, 1)}, cap=20)


def run(chk, tier):
    chk.fn(*[f"passes.common.{n}Pass.call" for n in pass_table()], "passes._pass_infra.PassBase.__call__", "_cloner.Cloner", "convenience.replace_all_uses_with / replace_nodes_and_values",
           "serde.serialize_model / deserialize_model (round-trip encoding)")
    chk.assume(
        "operators are uninterpreted functions of (domain, op type, overload, arity, attributes completed with the schema defaults of the opset in scope, output index): equality is proved for ALL operator semantics, hence for the real ones",
        "Identity is interpreted; Constant payloads and initializers are content-addressed constants; model-local functions are interpreted by their bodies with attribute parameters substituted; control-flow bodies are compared up to renaming of their formal parameters",
        "random operators get a per-occurrence nonce (merging two of them is detected; their distribution is not modelled)",
        "non-initializer graph inputs are identified by position; an initializer that is also a graph input is its default value",
        "a pass that raises on a model is counted as a refusal, not as a verdict",
    )
    nseq = len(sequences(tier))
    chk.bounds = dict(models=list(models.MODELS), passes=list(pass_table()), sequences_per_model=nseq,
                      sequence_shapes="all singles, all ordered pairs of the rewriting passes, recommended triples" + ("; all ordered triples of the 16 rewriting passes" if tier == "thorough" else ""))
    chk.not_decided += ["'accepted by the ONNX checker after the pass' is not solver-decided (the checker is C++ behind FFI): it is RUN concretely on the result of every explored sequence as a side-oracle", "numerical meaning of individual operators (abstracted - a stronger claim)",
                        "models outside the family; shape-inference content (only that it leaves the dataflow unchanged)"]
    # encoder validation: EUF verdicts agree with onnxruntime on hand-made equal / different pairs
    _validate_encoder(chk)
    step = 80 if tier == "quick" else 400
    items = [(m, lo, min(lo + step, nseq)) for m in models.MODELS for lo in range(0, nseq, step)]
    parallel(chk, "harness.C05", "shard", items)
    chk.extra["rule"] = "one case per (model, pass sequence); two obligations each (object graph, serialized round trip)"


def _validate_encoder(chk):
    import onnx_ir as ir

    # (1) two LeakyRelu with different alpha must be distinguishable, with equal alpha not; default completion
    u = euf.Universe()
    m = models.build("dup_attr")
    enc = euf.Encoder(u, m)
    env = {}
    term_of = enc._activation({id(m.graph.inputs[0]): u.const("in0"), id(m.graph.inputs[1]): u.const("in1")}, {"": models.OPSET})
    byname = {n.name: n for n in m.graph}
    t = {k: term_of(byname[k].outputs[0]) for k in ("l1", "l2", "l3", "l4", "c0", "c1", "c0b")}
    ok = (not t["l1"].eq(t["l2"])) and t["l3"].eq(t["l4"]) and t["c0"].eq(t["c0b"]) and not t["c0"].eq(t["c1"])
    r1, _, _ = euf.equivalent(u, [t["l1"]], [t["l2"]])
    r2, _, _ = euf.equivalent(u, [t["l3"]], [t["l4"]])
    if not ok or r1 != "sat" or r2 != "unsat":
        chk.note_inconclusive("encoder validation failed: attribute-sensitive terms")
    # (2) numeric agreement: a model and its clone evaluate identically; dup_attr output 0 vs 1 differ
    p = ir.to_proto(models.build("dup_add"))
    rep, _ = numeric_replay(p, ir.to_proto(models.build("dup_add")), 0)
    if rep is not False:
        chk.note_inconclusive("encoder validation failed: numeric replay disagrees on identical models")
    chk.validation.append("EUF encoder: attribute-sensitive / default-completing terms; numeric replay harness agrees on identical models")
    chk.vacuity_ok("hand-made non-equivalent pair (LeakyRelu alpha 0.25 vs 0.5) is answered sat")


def replay(rec):
    chk_table = pass_table()
    import onnx_ir as ir

    m = models.build(rec["model"])
    pb = ir.to_proto(m)
    cur = m
    for pname in rec["seq"]:
        cur = chk_table[pname]()(cur).model
    rep, note = numeric_replay(pb, ir.to_proto(cur), None)
    print(rep, note)
    return rep is not False
