"""C09 — concurrent external-data writing is schedule-independent, bounded and live.

Two groups of obligations, both executing the real code of `onnx_ir.external_data`:

A. *Inductive step on the byte budget* (unbounded in threads, steps and sizes).  The real
   `_ByteBudget.__init__/acquire/release` run on z3 integers from an ARBITRARY pre-state satisfying
   the invariant Inv (1 <= capacity, 0 <= in_flight <= capacity, in_flight = sum of the regular
   reservations held, oversized_active <=> exactly one oversized reservation is held); z3 proves that
   every non-blocking outcome re-establishes Inv and returns the token the accounting expects, that a
   blocked call changes nothing, and that every release wakes all sleepers.  From Inv the memory bound
   (held bytes <= capacity + largest tensor) follows for any number of threads - also an SMT query.

B. *Bounded model checking of the writers.*  `_ExternalDataWriter.write` (parallel and serial with a
   shared budget) and the shard-driver layer of `_write_external_tensors` run on virtual threads
   (engine.vthreads): every interleaving at synchronisation points with at most P preemptions is
   explored, tensor sizes and the budget capacity are symbolic integers, so the guards of the blocking
   calls are decided by z3 under the path condition; which task fails (if any) is symbolic too.
   Oracles: no deadlock / lost wake-up (a stuck system is a violation), callback once per task and never
   concurrently, a shared tensor object evaluated by one thread at a time, materialised bytes <=
   capacity + largest tensor at every scheduling point, every task's bytes written exactly once at its
   own offset through a handle opened by the writing thread (with disjoint ranges - C07 - this makes the
   file independent of the schedule), file preallocated to the serial size, all handles closed; a
   failure reaches the caller with every worker stopped and the whole budget released.
"""
from __future__ import annotations

import operator
import types

import z3

from engine import fsmodel, hist, shadow, vthreads, zsym
from engine.zsym import SBool, SInt

LEVEL = "model_checking"
TECHNIQUE = ("SMT (z3): inductive invariant of the real _ByteBudget on symbolic states; bounded model checking of the real writers on "
             "virtual threads - all interleavings at synchronisation points up to a preemption bound, sizes/capacity/failing task symbolic")

TMAX = 64   # length of the schedule-choice vector


# ---------------------------------------------------------------------------------------------
# shadow module (the current source of external_data with threading/concurrent/os/open replaced)

_ENV = {}
CUR: dict = {}


class _Delegate:
    def __init__(self, name):
        object.__setattr__(self, "_name", name)

    def __getattr__(self, k):
        return getattr(CUR[object.__getattribute__(self, "_name")], k)


def _open(*a, **kw):
    h = CUR["open"](*a, **kw)
    s = vthreads.SCHED
    h.owner = s.current if s is not None else None
    return h


class _Log:
    def warning(self, *a, **k):
        pass

    info = debug = error = warning


def ed():
    if "ed" not in _ENV:
        _ENV["ed"] = shadow.load("onnx_ir.external_data", threading=vthreads.threading, concurrent=vthreads.concurrent,
                                 os=_Delegate("os"), shutil=_Delegate("shutil"), tempfile=_Delegate("tempfile"), open=_open,
                                 logger=_Log())
    return _ENV["ed"]


# ---------------------------------------------------------------------------------------------
# part A: inductive step on _ByteBudget


class _Blocked(Exception):
    pass


class _ProbeCondition:
    """`with cond:` is an atomic section; wait_for(p) is a guard: p false => the caller blocks"""

    def __init__(self):
        self.notified_all = 0
        self.notified = 0
        self.depth = 0

    def __enter__(self):
        self.depth += 1
        return self

    def __exit__(self, *a):
        self.depth -= 1
        return False

    def wait_for(self, pred, timeout=None):
        if self.depth != 1:
            raise AssertionError("wait_for outside the condition's lock")
        if pred():
            return True
        raise _Blocked()

    def notify_all(self):
        if self.depth != 1:
            raise AssertionError("notify_all outside the condition's lock")
        self.notified_all += 1

    def notify(self, n=1):
        self.notified += n

    def wait(self, timeout=None):
        # a bare wait() may return on ANY notification (also a spurious one) with the state unchanged: the adversarial
        # scheduler wakes the caller at once - code that does not re-check its predicate afterwards is exposed
        if self.depth != 1:
            raise AssertionError("wait outside the condition's lock")
        self.bare_waits = getattr(self, "bare_waits", 0) + 1
        return True


def part_a(chk):
    E = ed()
    B = E._ByteBudget
    cap, inf, n, r = z3.Ints("capacity in_flight n r")
    over = z3.Bool("oversized_active")
    inv = lambda c, i: z3.And(c >= 1, i >= 0, i <= c)  # noqa: E731

    def pre_state():
        return types.SimpleNamespace(_capacity=SInt(cap), _in_flight=SInt(inf), _oversized_active=SBool(over), _condition=_ProbeCondition())

    def post(o):
        return zsym.zint(o._in_flight), zsym.zbool(o._oversized_active)

    def acquire_step():
        o = pre_state()
        try:
            tok = B.acquire(o, SInt(n))
        except _Blocked:
            i2, ov2 = post(o)
            amount = z3.If(n > 0, n, 0)
            # blocked => nothing changed, and blocking was justified by the documented guard
            return z3.And(i2 == inf, ov2 == over,
                          z3.If(amount > cap, over, inf + amount > cap)), dict(outcome="blocked")
        i2, ov2 = post(o)
        tok = zsym.zint(tok)
        amount = z3.If(n > 0, n, 0)
        oversized = amount > cap
        return z3.And(
            inv(cap, i2),
            z3.If(oversized,
                  z3.And(tok == -1, z3.Not(over), ov2, i2 == inf),
                  z3.And(tok == amount, tok >= 0, i2 == inf + amount, ov2 == over)),
        ), dict(outcome="admitted")

    res = zsym.explore(acquire_step, [inv(cap, inf)], stop_at_first=True, keep_infos=20)
    _report(chk, res, "A.acquire", "acquire(n) from an arbitrary state satisfying Inv: admitted => Inv and exact accounting; blocked => state unchanged and the guard really false",
            lambda m: dict(capacity=m.eval(cap, True).as_long(), in_flight=m.eval(inf, True).as_long(), n=m.eval(n, True).as_long(), oversized_active=z3.is_true(m.eval(over, True))))
    outcomes = {i["outcome"] for i in res.path_infos if i}
    if outcomes != {"blocked", "admitted"}:
        chk.note_inconclusive(f"A.acquire: expected both blocked and admitted paths, saw {outcomes}")
    else:
        chk.vacuity_ok(f"A.acquire: {res.paths} paths, blocked and admitted outcomes both reachable")

    def release_step():
        o = pre_state()
        B.release(o, SInt(r))
        i2, ov2 = post(o)
        woke = o._condition.notified_all >= 1
        return z3.And(
            z3.BoolVal(woke), inv(cap, i2),
            z3.If(r == -1, z3.And(z3.Not(ov2), i2 == inf), z3.And(i2 == inf - r, ov2 == over)),
        ), dict(outcome="released")

    # the token is one that is held: -1 with the oversized flag set, or a regular reservation that is part of in_flight
    held = z3.Or(z3.And(r == -1, over), z3.And(r >= 0, r <= inf))
    res = zsym.explore(release_step, [inv(cap, inf), held], stop_at_first=True, keep_infos=5)
    _report(chk, res, "A.release", "release(token held) re-establishes Inv, gives back exactly the reservation and wakes every sleeper (notify_all)",
            lambda m: dict(capacity=m.eval(cap, True).as_long(), in_flight=m.eval(inf, True).as_long(), token=m.eval(r, True).as_long()))

    c0 = z3.Int("c0")

    def init_step():
        o = B(SInt(c0))
        return z3.And(inv(zsym.zint(o._capacity), zsym.zint(o._in_flight)), zsym.zint(o._in_flight) == 0,
                      z3.Not(zsym.zbool(o._oversized_active)), zsym.zint(o._capacity) >= c0), dict(outcome="init")

    ns = dict(vthreads.threading.__dict__)
    ns["Condition"] = _ProbeCondition
    saved = E.threading
    E.threading = types.SimpleNamespace(**ns)
    try:
        res = zsym.explore(init_step, [], stop_at_first=True)
    finally:
        E.threading = saved
    _report(chk, res, "A.init", "a new budget satisfies Inv for every requested capacity (also <= 0)", lambda m: dict(capacity=m.eval(c0, True).as_long()))

    # memory bound from Inv, for K tensors (sel_i: tensor i holds a regular reservation; ov_j: holds the oversized one)
    K = 6
    sz = z3.Ints(" ".join(f"size{i}" for i in range(K)))
    sel = z3.Bools(" ".join(f"reg{i}" for i in range(K)))
    ovs = z3.Bools(" ".join(f"ovs{i}" for i in range(K)))
    big = z3.Int("largest")
    s = z3.Solver()
    s.set("timeout", 20000)
    s.add(cap >= 1, *[x >= 0 for x in sz], *[big >= x for x in sz])
    s.add(inf == z3.Sum([z3.If(sel[i], sz[i], 0) for i in range(K)]), inv(cap, inf))
    s.add(z3.Sum([z3.If(o, 1, 0) for o in ovs]) <= 1, *[z3.Not(z3.And(sel[i], ovs[i])) for i in range(K)])
    s.add(z3.Sum([z3.If(z3.Or(sel[i], ovs[i]), sz[i], 0) for i in range(K)]) > cap + big)
    import time

    t = time.time()
    r_ = str(s.check())
    chk.queries += 1
    chk.solver_s += time.time() - t
    chk.obligations += 1
    chk.case("A.bound")
    if r_ == "unsat":
        chk.discharged += 1
    else:
        chk.note_inconclusive(f"A.bound: Inv => held bytes <= capacity + largest tensor answered {r_}")


def _report(chk, res, name, text, show):
    chk.add_stats(res.stats())
    chk.case(name)
    if res.unknown:
        chk.note_inconclusive(f"{name}: solver answered unknown on {len(res.unknown)} path(s)")
    if res.cex is not None:
        model, info, _pc = res.cex
        w = show(model)
        # replay: the same real methods on plain Python values
        ok = _replay_budget(name, w)
        if ok:
            chk.note_inconclusive(f"{name}: counterexample {w} did not reproduce concretely")
        else:
            chk.violation(f"C09:{name}", f"{text} FAILS for {w} ({info})", dict(part="A", name=name, witness=w))
    chk.sample({"obligation": name, "claim": text, "paths": res.paths, "queries": res.queries}, cap=14)


def _replay_budget(name, w):
    """True if the claim holds on the concrete witness"""
    E = ed()
    B = E._ByteBudget
    if name == "A.init":
        saved = E.threading
        ns = dict(vthreads.threading.__dict__)
        ns["Condition"] = _ProbeCondition
        E.threading = types.SimpleNamespace(**ns)
        try:
            o = B(w["capacity"])
        finally:
            E.threading = saved
        return o._capacity >= 1 and o._in_flight == 0 and not o._oversized_active and o._capacity >= w["capacity"]
    o = types.SimpleNamespace(_capacity=w["capacity"], _in_flight=w["in_flight"], _oversized_active=w.get("oversized_active", w.get("token") == -1), _condition=_ProbeCondition())
    cap, inf, over = o._capacity, o._in_flight, o._oversized_active
    if name == "A.acquire":
        n = w["n"]
        amount = max(n, 0)
        try:
            tok = B.acquire(o, n)
        except _Blocked:
            return o._in_flight == inf and o._oversized_active == over and (over if amount > cap else inf + amount > cap)
        if amount > cap:
            return tok == -1 and not over and o._oversized_active and o._in_flight == inf and 0 <= o._in_flight <= cap
        return tok == amount and o._in_flight == inf + amount <= cap and o._oversized_active == over
    if name == "A.release":
        r = w["token"]
        B.release(o, r)
        if o._condition.notified_all < 1:
            return False
        if r == -1:
            return not o._oversized_active and o._in_flight == inf
        return o._in_flight == inf - r and o._oversized_active == over and 0 <= o._in_flight <= cap
    raise AssertionError(name)


# ---------------------------------------------------------------------------------------------
# part B: bounded model checking on virtual threads


class World:
    """what the oracles observe"""

    def __init__(self, P, n, sizes, cap, shared):
        self.P = P
        self.n = n
        self.sizes = sizes
        self.cap = cap
        self.fail = P["f"]
        self.fail_kind = P.get("fk", 0)
        self.problems: list[str] = []
        self.active: list = []          # tensors currently materialised (between start of tofile and its end)
        self.evaluating: dict = {}      # id(tensor object) -> thread
        self.in_callback = 0
        self.callbacks: list = []
        self.writes: list = []          # (task key, position, handle, thread name)
        self.t = 0
        self._checked = None

    def problem(self, p):
        if p not in self.problems:
            self.problems.append(p)

    def choose(self, n, what):
        t = self.t
        self.t += 1
        if t >= TMAX:
            raise zsym.Unsupported("schedule longer than the declared choice vector")
        return hist.choice(self.P[f"s{t}"], n)

    def observe(self):
        """memory bound at every scheduling point (symbolic sizes: the comparison is decided by z3)"""
        key = tuple(id(x) for x in self.active)
        if key == self._checked or len(self.active) < 2:
            return
        self._checked = key
        held = sum(x.nbytes for x in self.active)
        big = self.sizes[0]
        for s in self.sizes[1:]:
            big = _smax(big, s)
        if held > self.cap + big:
            self.problem(f"materialised bytes of {[x.name for x in self.active]} exceed capacity + largest tensor")


def _smax(a, b):
    if isinstance(a, SInt) or isinstance(b, SInt):
        return SInt(z3.If(zsym.zint(a) >= zsym.zint(b), zsym.zint(a), zsym.zint(b)))
    return max(a, b)


class _Interrupted(BaseException):
    """a failure that is NOT an Exception (KeyboardInterrupt / SystemExit / CancelledError class)"""


class DuckTensor:
    """TensorProtocol surface the writers use: name, nbytes, dtype, shape, tofile"""

    def __init__(self, world, idx, size):
        import onnx_ir as ir

        self.world = world
        self.idx = idx
        self.name = f"t{idx}"
        self.nbytes = size
        self.dtype = ir.DataType.UINT8
        self.shape = ir.Shape([None])
        self.uses = 0

    def tofile(self, file):
        w = self.world
        s = vthreads.sched()
        me = s.current
        if id(self) in w.evaluating:
            w.problem(f"tensor object {self.name} evaluated by {w.evaluating[id(self)].name} and {me.name} at the same time")
        w.evaluating[id(self)] = me
        w.active.append(self)
        s.log(f"materialise {self.name}")
        s.yield_point("materialise")
        try:
            if w.fail == self.idx:
                if w.fail_kind == 1:
                    raise _Interrupted(f"tensor {self.name} failed (BaseException)")
                raise RuntimeError(f"tensor {self.name} failed")
            w.writes.append((self.idx, file.pos, file, me))
            self.uses += 1
        finally:
            w.active.remove(self)
            w.evaluating.pop(id(self), None)


def _callback(world):
    def cb(tensor, info):
        s = vthreads.sched()
        world.in_callback += 1
        if world.in_callback > 1:
            world.problem("progress callback entered by two threads at once")
        world.callbacks.append((operator.index(info.index), tensor.name))
        s.yield_point("callback")
        world.in_callback -= 1

    return cb


CONFIGS = {
    # key: (mode, number of tasks, max_workers, aliases (task -> tensor object), preemptions quick, preemptions thorough)
    "par2w2": ("writer", 2, 2, None),
    "par3w2": ("writer", 3, 2, None),
    "par3w3": ("writer", 3, 3, None),
    "par3w2-shared": ("writer", 3, 2, [0, 1, 0]),       # tasks 0 and 2 write the same tensor object
    "par4w2": ("writer", 4, 2, None),
    "par4w3-shared": ("writer", 4, 3, [0, 1, 1, 0]),
    "shards2x2w4": ("shards", 4, 4, None),              # 2 shard drivers, serial inner writers, shared budget
    "shards2x2w6": ("shards", 4, 6, None),              # 2 shard drivers with 2 inner workers each
    "shards3w3": ("shards3", 3, 3, None),               # 3 single-tensor shards
    "shards21w6-shared": ("shards21", 3, 6, [0, 1, 0]), # a 2-tensor shard (parallel inner writer) and a 1-tensor shard (serial) that write the SAME tensor object
}


WINDOW = 8     # width (in scheduling steps) of one shard of the preemption positions


def make_case(tier, key):
    cfg, preempt, failmode, mask = key[:4]
    win = key[4] if len(key) > 4 else None
    mode, n, workers, aliases = CONFIGS[cfg]
    ranges = {f"z{i}": (0, None) for i in range(n)}
    ranges["cap"] = (1, None)
    nobj = len(set(aliases)) if aliases else n
    ranges["f"] = (-1, -1) if failmode == "ok" else (failmode, failmode)
    if failmode != "ok":
        ranges["fk"] = (0, 1)     # the failing tensor raises an Exception or a BaseException that is not an Exception

    def assume(terms):
        # shard of the size space: which tensor objects are larger than the whole budget
        if mask == "fit":   # everything fits at once: the budget never blocks (the schedule space is what is explored)
            return [z3.Sum([terms[f"z{i}"] for i in range(nobj)]) <= terms["cap"]]
        return [(terms[f"z{i}"] > terms["cap"]) if (mask >> i) & 1 else (terms[f"z{i}"] <= terms["cap"]) for i in range(nobj)]
    for t in range(TMAX):
        ranges[f"s{t}"] = (0, 15)

    def body(P):
        return run_config(P, mode, n, workers, aliases, preempt, None if win is None else (win * WINDOW, (win + 1) * WINDOW if win < WINDOWS_LAST else 10 ** 6))

    def sig(args, obs):
        return "C09:" + cfg + ":" + (obs["problems"][0].split(":")[0][:60] if obs["problems"] else "?")

    def describe(args, obs):
        small = {k: v for k, v in args.items() if not k.startswith("s")}
        sched_ = [args[f"s{t}"] for t in range(obs.get("choices", 0))]
        return f"{cfg} preemptions<={preempt} sizes/capacity/failing task {small} schedule {sched_}: " + "; ".join(obs["problems"][:3])

    over = "none, all tensors fit together" if mask == "fit" else [i for i in range(nobj) if (mask >> i) & 1]
    wtxt = "" if win is None else f", preemption at scheduling steps {win * WINDOW}..{'end' if win >= WINDOWS_LAST else (win + 1) * WINDOW - 1}"
    return hist.Case(f"{cfg}[{'no failure' if failmode == 'ok' else f'tensor {failmode} fails'}, tensors larger than the budget: {over}, <= {preempt} preemptions{wtxt}]",
                     ranges, body, group=cfg, meta=dict(sig=sig, describe=describe, assume=assume))


WINDOWS_LAST = 15


def run_config(P, mode, n, workers, aliases, preempt, window=None):
    E = ed()
    sizes = [P[f"z{i}"] for i in range(n)]
    cap = P["cap"]
    w = World(P, n, sizes, cap, None)
    fs = fsmodel.FS()
    fs.mkdir_p("/m")
    CUR.update(fs.namespaces())
    objs = {}
    tensors = []
    for i in range(n):
        a = aliases[i] if aliases else i
        if a not in objs:
            objs[a] = DuckTensor(w, a, sizes[a])
        tensors.append(objs[a])
    if aliases:
        # an aliased task fails iff the shared object is the failing one; sizes follow the object
        sizes = [t.nbytes for t in tensors]
        w.sizes = sizes
    cb = _callback(w)
    outcome = {}
    budget_box = {}

    def check_quiescent(s, label):
        others = [t for t in s.threads if t is not s.current and t.state != "done"]
        if others:
            w.problem(f"{label}: the exception reached the caller while {[t.name for t in others]} had not stopped")
        b = budget_box.get("b")
        if b is not None:
            if operator.index(b._in_flight) != 0 if not isinstance(b._in_flight, SInt) else bool(b._in_flight != 0):
                w.problem(f"{label}: budget not released (in-flight bytes remain)")
            if b._oversized_active:
                w.problem(f"{label}: budget not released (oversized reservation still active)")

    def main():
        s = vthreads.sched()
        try:
            if mode == "writer":
                infos, off = [], 0
                for t in tensors:
                    infos.append(E._ExternalDataInfo(t.name, off, t.nbytes))
                    off = off + t.nbytes
                budget = E._ByteBudget(cap)
                budget_box["b"] = budget
                wr = E._ExternalDataWriter(tensors, infos, "/m/data.bin", cb, callback_filename="data.bin", budget=budget,
                                           max_workers=workers, max_in_flight_bytes=cap, tensor_write_locks=E._create_tensor_write_locks(tensors))
                outcome["expected"] = [("/m/data.bin", tensors[i].idx, infos[i].offset) for i in range(n)]
                outcome["total"] = ("/m/data.bin", off)
                wr.write()
            else:
                per = 2 if mode == "shards" else 1
                groups = [tensors[i:i + per] for i in range(0, n, per)] if mode != "shards21" else [tensors[0:2], tensors[2:3]]
                created = []
                wet = zsym.rebind(E._write_external_tensors, _shard_tensors=lambda ts, *a, **k: groups,
                                  convert_tensors_to_external=zsym.rebind(
                                      E.convert_tensors_to_external,
                                      _create_external_tensor=lambda t, info, b, r: created.append((r, t.idx, info.offset)) or (r, t.idx)))
                outcome["expected"] = []
                total = len(groups)
                for gi, g in enumerate(groups):
                    off = 0
                    name = E._get_shard_filename("data.bin", gi + 1, total)
                    for t in g:
                        outcome["expected"].append((f"/m/{name}", t.idx, off))
                        off = off + t.nbytes
                # capture the shared budget the real code creates
                real_budget = E._ByteBudget

                def spy(c):
                    b = real_budget(c)
                    budget_box["b"] = b
                    return b

                wet = zsym.rebind(wet, _ByteBudget=spy)
                wet(tensors, "/m", "data.bin", max_shard_size_bytes=1, callback=cb, max_workers=workers, max_in_flight_bytes=cap,
                    alignment=None, align_threshold=0)
        except (RuntimeError, _Interrupted) as e:
            if "failed" not in str(e):
                raise
            outcome["raised"] = str(e)
            check_quiescent(s, "failing tensor")

    try:
        _, sch = vthreads.run(main, w.choose, max_preemptions=preempt, observers=[w.observe], preempt_window=window, delay_bounded=window is not None)
    except vthreads.Deadlock as e:
        w.problem(f"deadlock: {e}")
        return False, dict(problems=w.problems, choices=w.t)
    except vthreads.SchedulerError as e:
        w.problem(f"primitive misused: {e}")
        return False, dict(problems=w.problems, choices=w.t)

    failing = w.fail
    failed_expected = not (failing == -1)
    if failed_expected:
        if "raised" not in outcome:
            w.problem("failure swallowed: a tensor raised but the save returned normally")
    else:
        if "raised" in outcome:
            w.problem(f"unexpected failure: {outcome['raised']}")
        # callback exactly once per task
        if sorted(i for i, _ in w.callbacks) != list(range(n)):
            w.problem(f"callback indices {sorted(i for i, _ in w.callbacks)} are not one per task")
        # every task written exactly once, at its own offset, through a handle of the writing thread
        exp = list(outcome["expected"])
        got = list(w.writes)
        if len(got) != len(exp):
            w.problem(f"{len(got)} tensor writes for {len(exp)} tasks")
        for idx, pos, handle, thread in got:
            match = None
            for e_ in exp:
                if fs.inode(e_[0]) is handle.inode and e_[1] == idx and (e_[2] is pos or bool(e_[2] == pos)):
                    match = e_
                    break
            if match is None:
                w.problem(f"write of t{idx} into {handle.path} does not land on the offset the layout assigns to it")
            else:
                exp.remove(match)
            if handle.owner is not thread:
                w.problem(f"write of t{idx} by {thread.name} went through a file handle opened by {getattr(handle.owner, 'name', None)}")
        if "total" in outcome and workers > 1 and n > 1:
            path, total = outcome["total"]
            tr = [r for r in fs.inode(path).records if r[0] == "truncate"] if fs.inode(path) else []
            if len(tr) != 1 or not (tr[0][1] is total or bool(tr[0][1] == total)):
                w.problem("parallel writer did not preallocate the file to the size of the serial file")
        if any(not h.closed for h in fs.open_handles):
            w.problem("a file handle was left open")
        b = budget_box.get("b")
        if b is not None:
            if bool(b._in_flight != 0) or b._oversized_active:
                w.problem("budget not fully released after a successful save")
    return (not w.problems), dict(problems=w.problems, choices=w.t, raised="raised" in outcome)


PLAN = {
    # tier -> [(config, preemptions without failure, preemptions with a failing tensor)]
    "quick": [("par2w2", 2, 1), ("par3w2", 1, 1), ("par3w2-shared", 1, 1), ("shards2x2w4", 1, 0), ("shards3w3", 1, 0), ("shards2x2w6", 2, None, ["fit", 0], True),
              ("shards21w6-shared", 1, None, [2, 3])],    # quick: the two size classes with an oversized second tensor (the other two take > 4 min each; thorough has all)
    # thorough: small configurations with full preemption semantics; larger ones delay-bounded (deviations from a
    # round-robin default order, also at blocking points) with the position of the deviations sharded into windows
    "thorough": [("par2w2", 3, 2), ("par3w2", 2, 1), ("par3w2-shared", 2, 1), ("par3w3", 1, 1), ("shards2x2w4", 1, 1), ("shards3w3", 1, 1),
                 ("par3w3", 3, 2, None, True), ("par4w2", 2, 2, None, True), ("par4w3-shared", 2, 2, None, True),
                 ("shards2x2w4", 3, 2, None, True), ("shards2x2w6", 3, 2, ["fit", 0, 5], True), ("shards3w3", 3, 2, None, True),
                 ("shards21w6-shared", 1, None)],
}


def keys_for(tier):
    keys = []
    for entry in PLAN[tier]:
        c, p_ok, p_fail = entry[:3]
        _, n, _, aliases = CONFIGS[c]
        nobj = len(set(aliases)) if aliases else n
        masks = entry[3] if len(entry) > 3 and entry[3] is not None else range(1 << nobj)
        windows = list(range(WINDOWS_LAST + 1)) if len(entry) > 4 and entry[4] else [None]
        for mask in masks:
            for win in windows:
                tail = () if win is None else (win,)
                keys.append((c, p_ok, "ok", mask) + tail)
                if p_fail is not None:
                    for f in range(nobj):
                        keys.append((c, p_fail, f, mask) + tail)
    return keys


def run(chk, tier):
    chk.fn("external_data._ByteBudget.__init__/acquire/release", "external_data._reservation_bytes", "external_data._write_tensor_at",
           "external_data._write_tensor_with_budget_at", "external_data._create_tensor_write_locks",
           "external_data._ExternalDataWriter.write/_write_serial/_write_parallel/_write_tensor/_invoke_callback/_write_one/_thread_file",
           "external_data._write_external_tensors (shard-driver layer)", "external_data.convert_tensors_to_external", "external_data._write_external_data")
    chk.assume(
        "threading.Lock/RLock/Condition/local and concurrent.futures.ThreadPoolExecutor/as_completed are replaced by engine.vthreads, which implements their documented contracts (see its docstring); context switches happen only at synchronisation points: lock acquire, condition wait, future wait, submit, shutdown, tensor materialisation, inside the callback",
        "tensors are duck-typed objects whose tofile() materialises (a scheduling point), optionally raises, and records the write; sizes are arbitrary non-negative integers, the capacity an arbitrary integer >= 1",
        "part A: the token passed to release() is one that is held (-1 with the oversized flag set, or a regular reservation that is part of in_flight)",
        "os/shutil/tempfile/open are the in-memory file system of engine.fsmodel (no failures injected here; C08 covers them)",
        "in the shard configurations _shard_tensors returns a fixed partition (sharding arithmetic is C07) and _create_external_tensor is a recorder",
        "every explored path is re-executed natively with the path's witness (sizes, capacity, failing task, schedule) and must give the same observation",
    )
    chk.bounds = dict(part_A="unbounded: arbitrary state satisfying Inv, arbitrary request, any number of threads",
                      part_B=dict(configurations={k: dict(mode=v[0], tasks=v[1], max_workers=v[2], aliases=v[3]) for k, v in CONFIGS.items() if k in [e[0] for e in PLAN[tier]]},
                                  preemptions={e[0]: dict(no_failure=e[1], failing_tensor=e[2]) for e in PLAN[tier]},
                                  failing_tasks="at most one, symbolic index", schedule_points=TMAX))
    chk.not_decided += ["preemption inside an atomic section / the GIL (shared state is only touched under the condition's lock)",
                        "schedules with more preemptions, more tasks/workers than the bound", "real file bytes (ranges are disjoint by C07; ExternalTensor bytes by C04)"]
    part_a(chk)
    hist.run_cases(chk, "harness.C09", "make_case", keys_for(tier))
    chk.extra["rule"] = "part A: one obligation per budget method; part B: one case per (configuration, preemption bound, with/without a failing task), all schedules and all size/capacity relations explored"


def replay(rec):
    if rec.get("part") == "A":
        return not _replay_budget(rec["name"], rec["witness"])
    case = make_case("quick", tuple(rec["key"]))
    ok, obs = case.body(dict(rec["args"]))
    print(obs)
    return not ok
