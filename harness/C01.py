"""C01 — use-def and ownership links stay consistent under every edit history.

History driver on zsym: a case per (seed state, first operation[, second operation]) drives the
public mutation API with symbolic operand selectors and payload ints; the oracle is the invariant
I(U) over every object the harness ever held, evaluated through public accessors after the last
step — whether the steps returned or raised.  Every path's witness is re-executed natively.
"""
from __future__ import annotations

from engine import hist, irlib

LEVEL = "other"
TECHNIQUE = "symbolic execution (zsym, z3) of bounded edit histories over the real IR classes: operand selectors and payload ints symbolic, invariant I(U) checked on every feasible path, each path's witness re-executed natively"

RANGES = dict(gi=(0, 1), a=(0, 8), b=(-2, 4), c=(-1, 3), d=(0, 12))
RANGES_K2 = dict(gi=(0, 1), a=(0, 3), b=(-1, 1), c=(0, 1), d=(0, 3))  # two-step histories: smaller payload ranges


RANGES_IO = dict(gi=(0, 1), a=(0, 3), b=(0, 1), c=(2, 3), d=(0, 3))   # multi-element slice/extend first, then a removal from inputs/outputs
IO_OPS = [i for i, o in enumerate(irlib.OPS) if o in ("in.pop", "in.remove", "in.delitem", "in.clear", "out.pop", "out.remove", "out.delitem", "out.clear")]
IO_SEEDS = [3, 4, 7]   # the seeds in which a value is listed several times / was listed before
MULTI_OPS = [i for i, o in enumerate(irlib.OPS) if o in ("in.setslice2", "out.setslice2", "in.extend3", "out.extend3")]


K2_STRIDE = 5
PARTS = 4
HEAVY = {"conv.rename_values2", "conv.rename_values3", "Node(outputs3=)", "init.update_keys", "in.setslice2", "out.setslice2", "in.extend3", "out.extend3"}


def body_for(seed, ops_fixed, k):
    def body(P):
        st = irlib.seed(seed)
        raised = []
        names = []
        first_bad = None
        for i in range(k):
            op = ops_fixed[i] if i < len(ops_fixed) else P[f"o{i}"]
            import operator

            op = operator.index(op)
            names.append(irlib.OPS[op])
            raised.append(irlib.apply(st, op, P[f"gi{i}"], P[f"a{i}"], P[f"b{i}"], P[f"c{i}"], P[f"d{i}"]))
            if i < k - 1 and first_bad is None:
                mid = irlib.invariant(st)
                if mid:
                    first_bad = (i, mid)
        problems = irlib.invariant(st)
        if problems and first_bad is None:
            first_bad = (k - 1, problems)
        # the call after which the invariant first fails identifies the finding
        culprit = None if first_bad is None else dict(op=names[first_bad[0]], tags=irlib.tags(first_bad[1]))
        return (not problems), dict(ops=names, raised=raised, problems=problems[:6], culprit=culprit)

    return body


def make_case(tier, key):
    kind = key[0]
    if kind == "k1":
        _, seed, op = key
        ranges = {f"{p}0": r for p, r in RANGES.items()}
        name = f"k1[seed {seed}: {irlib.OPS[op]}]"
        body = body_for(seed, [op], 1)
    else:
        _, seed, op, sub = key
        part = None
        if sub[-1].isdigit():       # "node2" = third quarter of the node sub-alphabet (first operations with many parameters)
            sub, part = sub[:-1], int(sub[-1])
        subops = irlib.COLLECTION_OPS if sub == "coll" else (IO_OPS if sub == "io" else irlib.NODE_OPS)
        if part is not None:
            subops = subops[part::PARTS]
        ranges = {f"{p}{i}": r for i in (0, 1) for p, r in (RANGES_IO if sub == "io" else RANGES_K2).items()}
        ranges["o1"] = (0, len(subops) - 1)
        name = f"k2[seed {seed}: {irlib.OPS[op]} ; any {sub} op{'' if part is None else f' (part {part + 1}/{PARTS})'}]"
        inner = body_for(seed, [op], 2)

        if sub == "io":
            ranges.update(gi1=(0, 0), c1=(0, 0), d1=(0, 0), b1=(0, 1))

        def body(P, inner=inner, subops=subops):
            import operator

            Q = dict(P)
            Q["o1"] = subops[operator.index(P["o1"])]
            if sub == "io":
                Q["gi1"] = P["gi0"]
            return inner(Q)

    def sig(args, obs):
        return "C01:" + obs["culprit"]["op"] + ":" + ",".join(obs["culprit"]["tags"])

    def describe(args, obs):
        return f"{obs['ops']} with {args} (raised {obs['raised']}) -> " + "; ".join(obs["problems"][:3])

    return hist.Case(name, ranges, body, meta=dict(sig=sig, describe=describe))


def keys_for(tier):
    keys = [("k1", s, o) for s in range(irlib.N_SEEDS) for o in range(irlib.N_OPS)]
    # values listed several times: a multi-element slice assignment / extend followed by any inputs/outputs operation
    keys += [("k2", s, o, "io") for s in IO_SEEDS for o in MULTI_OPS]
    if tier == "thorough":
        # every first operation is paired with 2 of the 10 seeds (stride 5 over seed + operation); the second operation is
        # symbolic inside the sub-alphabet.  (All seed x operation pairs would take ~4 h on 16 cores.)
        for s in range(irlib.N_SEEDS):
            for o in irlib.COLLECTION_OPS + irlib.NODE_OPS:
                if (s + o) % K2_STRIDE:
                    continue
                sub = "coll" if o in irlib.COLLECTION_OPS else "node"
                keys += [("k2", s, o, f"{sub}{q}") for q in range(PARTS)] if irlib.OPS[o] in HEAVY else [("k2", s, o, sub)]
    return keys


def run(chk, tier):
    chk.fn("_core.Node.__init__/replace_input_with/resize_inputs/resize_outputs/prepend/append",
           "_core.Value.replace_all_uses_with/name setter/_add_usage/_remove_usage",
           "_core.Graph.append/extend/insert_before/insert_after/remove/sort/register_initializer",
           "_graph_containers.GraphInputs/GraphOutputs (every UserList mutator)", "_graph_containers.GraphInitializers (every UserDict mutator)",
           "_linked_list.DoublyLinkedSet", "_name_authority.NameAuthority", "_convenience.replace_all_uses_with")
    chk.assume(
        f"operand selectors and payload ints are symbolic integers constrained to {RANGES} (selectors index harness-owned pools modulo their size)",
        "names come from a fixed pool (C15 covers symbolic names)",
        "exceptions of the documented kinds raised by a step are swallowed; the invariant is evaluated regardless",
        "every explored path is re-executed natively with the path's witness and must give the same observation (guard against proxy intolerance)",
    )
    chk.bounds = dict(history_length="1 (every operation from every seed); 2 for a multi-element slice assignment/extend followed by any inputs/outputs operation" + (f"; 2 with the second operation symbolic inside the collection / node sub-alphabet, first operation x seed pairs with (seed + operation) % {K2_STRIDE} == 0" if tier == "thorough" else ""),
                      seeds=irlib.N_SEEDS, operations=irlib.N_OPS, parameters=RANGES, parameters_two_step=RANGES_K2)
    chk.not_decided += ["histories longer than the bound; more than 2 graphs / 5 nodes / 9 values", "Function wrappers (they delegate to Graph)"]
    hist.run_cases(chk, "harness.C01", "make_case", keys_for(tier))
    chk.extra["rule"] = "one case per (seed state, first operation[, sub-alphabet of the second]); z3 decides the feasibility of every path over the operand/payload parameters; all feasible paths are explored"


def replay(rec):
    case = make_case("quick", tuple(rec["key"]))
    ok, obs = case.body(dict(rec["args"]))
    print(obs)
    return not ok
