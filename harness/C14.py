"""C14 — passes honour their contract: identity, modified flag, fixpoint, no damage.

History driver on zsym over the shared model family.  Symbolic per case: the pass selector, how the
pass is invoked (directly / functionalized / through a PassManager), and for the analysis-only passes
(CheckerPass, ShapeInferencePass) the fault injected at the ONNX boundary:

* `big`  - the size limit above which `call_onnx_api` strips an initializer is a SYMBOLIC integer (the
           module constant is replaced in a shadow copy), so every split of the initializers into
           stripped / kept ones is a path decided by z3;
* `lazy` - index of an initializer whose tensor is lazy and raises when serialized (serialization fault);
* `api`  - whether the wrapped ONNX call (checker / shape inference) raises.

Oracles: returned-model identity per in_place / functional; modified=False => byte-identical
serialization; repeated application converges within #nodes + #values + #functions + 2 rounds to
modified=False and an unchanged proto; the C01 invariant I(U) holds afterwards; a topologically ordered
model stays ordered; the result still serializes; analysis-only passes leave names, order and identity
of initializers, graph inputs, types and shapes exactly as they were - also on every fault path.
"""
from __future__ import annotations

import operator

from engine import hist, irlib, models, shadow, zsym
from engine.zsym import SInt

LEVEL = "other"
TECHNIQUE = ("symbolic execution (zsym/z3) of pass invocations over a model family: pass selector, invocation mode, strip limit of call_onnx_api and "
             "ONNX-boundary faults symbolic; contract oracles (identity, modified flag vs proto bytes, fixpoint bound, I(U), order, unchanged snapshot); per-path native re-execution")

_ENV: dict = {}
FAULT: dict = {}


class _FaultyOnnx:
    """the real onnx package, except that checker.check_model / shape_inference.infer_shapes raise when asked to"""

    def __getattr__(self, k):
        import onnx

        return getattr(onnx, k)

    class _Checker:
        def __getattr__(self, k):
            import onnx

            return getattr(onnx.checker, k)

        @staticmethod
        def check_model(*a, **kw):
            import onnx

            if FAULT.get("api"):
                raise onnx.checker.ValidationError("injected failure of the ONNX checker")
            return onnx.checker.check_model(*a, **kw)

    class _SI:
        def __getattr__(self, k):
            import onnx

            return getattr(onnx.shape_inference, k)

        @staticmethod
        def infer_shapes(*a, **kw):
            import onnx

            if FAULT.get("api"):
                raise onnx.shape_inference.InferenceError("injected failure of shape inference")
            return onnx.shape_inference.infer_shapes(*a, **kw)

    checker = _Checker()
    shape_inference = _SI()


def env():
    if not _ENV:
        capi = shadow.load("onnx_ir.passes.common._c_api_utils")
        fo = _FaultyOnnx()
        chk = shadow.load("onnx_ir.passes.common.onnx_checker", _c_api_utils=capi, onnx=fo)
        si = shadow.load("onnx_ir.passes.common.shape_inference", _c_api_utils=capi, onnx=fo)
        si.logger.disabled = True
        _ENV.update(capi=capi, chk=chk, si=si)
    return _ENV


def pass_table():
    from harness.C05 import pass_table as t

    tab = dict(t())
    E = env()
    tab["Checker"] = lambda: E["chk"].CheckerPass()
    tab["CheckerFull"] = lambda: E["chk"].CheckerPass(full_check=True)
    tab["ShapeInference"] = lambda: E["si"].ShapeInferencePass()
    tab["ShapeInferenceLoose"] = lambda: E["si"].ShapeInferencePass(check_type=False, strict_mode=False, data_prop=False)
    return tab


PASSES = None
ANALYSIS = ["Checker", "CheckerFull", "ShapeInference", "ShapeInferenceLoose"]


def pass_names():
    global PASSES
    if PASSES is None:
        PASSES = list(pass_table())
    return PASSES


# ---------------------------------------------------------------------------------------------


def state_of(model):
    import onnx_ir as ir

    graphs = list(model.graphs())
    for f in model.functions.values():
        graphs.append(f.graph)
        graphs.extend(f.subgraphs())
    nodes, values = [], []
    for g in graphs:
        for n in g:
            nodes.append(n)
            values.extend(n.outputs)
        values.extend(g.inputs)
        values.extend(g.initializers.values())
    return irlib.State(graphs, nodes, values)


def proto_bytes(model):
    import onnx_ir as ir

    return ir.to_proto(model).SerializeToString(deterministic=True)


def is_sorted(model):
    for g in state_of(model).graphs:
        seen = set()
        inner = set()
        for n in g:
            inner.add(id(n))
        for n in g:
            for v in n.inputs:
                if v is not None and v.producer() is not None and id(v.producer()) in inner and id(v.producer()) not in seen:
                    return False
            seen.add(id(n))
    return True


def undefined_values(model):
    """names of values that are used (by a node or as a graph output) without being defined anywhere in their scope chain"""
    st = state_of(model)
    out = set()
    for g in st.graphs:
        for v in g.outputs:
            if v.producer() is None and not v.is_graph_input() and not v.is_initializer():
                out.add(f"output {v.name!r} of graph {g.name!r}")
        for n in g:
            for v in n.inputs:
                if v is not None and v.producer() is None and not v.is_graph_input() and not v.is_initializer():
                    out.add(f"input {v.name!r} of node {n.name!r}")
    return out


def exact_snapshot(model):
    """what 'exactly unchanged' means for analysis-only passes (no serialization involved: it may be failing)"""
    st = state_of(model)
    snap = irlib.snapshot(st)
    extra = []
    for g in st.graphs:
        extra.append(("inits", g.name, [(k, id(v), id(v.const_value)) for k, v in g.initializers.items()]))
        extra.append(("inputs", g.name, [id(v) for v in g.inputs]))
        extra.append(("outputs", g.name, [id(v) for v in g.outputs]))
    return snap, extra


def size_bound(model):
    st = state_of(model)
    return len(st.nodes) + len(st.values) + len(model.functions) + 2


def make_case(tier, key):
    mname, group = key
    names = pass_names()
    if group == "contract":
        ranges = dict(p=(0, len(names) - 1), mode=(0, 3))
    else:
        ranges = dict(p=(0, len(ANALYSIS) - 1), big=(0, 4000), lazy=(-1, 3), api=(0, 1), inmask=(0, 7))

    def body(P):
        return run_contract(mname, P) if group == "contract" else run_analysis(mname, P)

    def sig(args, obs):
        return f"C14:{obs.get('pass')}:{obs['problems'][0].split(':')[0][:60] if obs['problems'] else '?'}"

    def describe(args, obs):
        return f"model '{mname}', {obs.get('pass')} ({args}): " + "; ".join(obs["problems"][:3])

    return hist.Case(f"{mname}[{group}]", ranges, body, meta=dict(sig=sig, describe=describe))


def run_contract(mname, P):
    import onnx_ir as ir

    names = pass_names()
    pname = names[operator.index(P["p"])]
    mode = operator.index(P["mode"])
    FAULT.clear()
    tab = pass_table()
    m = models.build(mname)
    problems = []
    bound = size_bound(m)
    sorted_before = is_sorted(m)
    undefined_before = undefined_values(m)
    try:
        b0 = proto_bytes(m)
    except Exception as e:  # noqa: BLE001
        return True, dict(problems=[], skipped=f"model does not serialize: {type(e).__name__}")
    p = tab[pname]()
    obs = {"pass": pname, "mode": ["direct", "functionalized", "manager", "functional manager applied to its own output"][mode]}
    try:
        if mode == 0:
            res = p(m)
            if p.in_place and res.model is not m:
                problems.append("identity: in-place pass returned another model object")
            if not p.in_place and res.model is m:
                problems.append("identity: functional pass returned its input object")
            if not res.modified:
                b1 = proto_bytes(res.model)
                if b1 != b0:
                    problems.append("modified flag: reported modified=False but the model serializes differently")
            cur = res.model
            # fixpoint within the bound
            rounds = 0
            last = proto_bytes(cur)
            while True:
                r2 = p(cur)
                cur = r2.model
                now = proto_bytes(cur)
                rounds += 1
                if not r2.modified:
                    if now != last:
                        problems.append(f"modified flag: round {rounds + 1} reported modified=False but changed the serialized model")
                    break
                last = now
                if rounds > bound:
                    problems.append(f"fixpoint: still reporting modifications after {rounds} rounds (bound {bound})")
                    break
            final = cur
        elif mode == 1:
            fp = ir.passes.functionalize(p)
            res = fp(m)
            if res.model is m:
                problems.append("identity: functionalized pass returned its input object")
            if proto_bytes(m) != b0:
                problems.append("functionalized pass changed its input model")
            final = res.model
        elif mode == 3:
            # a manager made of functional passes is not in place: every application returns a new model, also at the fixpoint
            pm = ir.passes.PassManager([ir.passes.functionalize(p)], steps=2, early_stop=True)
            if pm.in_place:
                problems.append("identity: a manager of functional passes declares itself in-place")
            cur, prev = m, None
            for rnd in range(3):
                res = pm(cur)
                if res.model is cur:
                    problems.append(f"identity: functional manager returned its input object in round {rnd + 1}")
                if proto_bytes(cur) != (b0 if rnd == 0 else prev):
                    problems.append(f"functional manager changed its input model in round {rnd + 1}")
                prev = proto_bytes(res.model)
                cur = res.model
            final = cur
        else:
            pm = ir.passes.PassManager([p], steps=bound + 1, early_stop=True)
            res = pm(m)
            if pm.in_place and res.model is not m:
                problems.append("identity: in-place pass manager returned another model object")
            r2 = p(res.model)
            if r2.modified:
                problems.append("fixpoint: the pass still modifies the model after PassManager(steps=bound) stopped")
            final = r2.model
    except ir.passes.PassError as e:
        msg = str(e)
        if "declared" in msg and "in-place" in msg:
            problems.append(f"identity: {msg[:140]}")
            return False, dict(problems=problems, **obs)
        return True, dict(problems=[], refused=f"PassError: {msg[:60]}", **obs)
    except Exception as e:  # noqa: BLE001   (a pass refusing a model is not a contract violation; C05 checks the model it leaves)
        return True, dict(problems=[], refused=f"{type(e).__name__}", **obs)
    inv = irlib.invariant(state_of(final))
    # Node(outputs=) on inputs is a known C01 finding; passes must not create NEW inconsistencies
    if inv:
        problems.append("links: " + "; ".join(inv[:2]))
    new_undefined = undefined_values(final) - undefined_before
    if new_undefined:
        problems.append(f"links: the pass left values that are used but defined nowhere: {sorted(new_undefined)[:3]}")
    if sorted_before and not is_sorted(final):
        problems.append("order: a topologically ordered model is no longer ordered")
    try:
        proto_bytes(final)
    except Exception as e:  # noqa: BLE001
        problems.append(f"names: the result no longer serializes: {type(e).__name__}: {str(e)[:100]}")
    return (not problems), dict(problems=problems, **obs)


def run_analysis(mname, P):
    import numpy as np

    import onnx_ir as ir

    E = env()
    pname = ANALYSIS[operator.index(P["p"])]
    lazy = operator.index(P["lazy"])
    api = operator.index(P["api"])
    FAULT.clear()
    FAULT["api"] = bool(api)
    E["capi"]._BIG_TENSOR_SIZE_LIMIT = P["big"]      # symbolic: every stripped/kept split is a path
    m = models.build(mname)
    inits = list(m.graph.initializers.values())
    inmask = operator.index(P["inmask"])
    if inmask >> len(inits):
        return True, dict(problems=[], skipped="mask beyond the initializers")
    for i, v in enumerate(inits):     # which initializers are also listed as graph inputs (overridable defaults)
        if (inmask >> i) & 1 and not v.is_graph_input():
            m.graph.inputs.append(v)
    obs = {"pass": pname, "lazy": lazy, "api": api, "inmask": inmask}
    if lazy >= 0:
        if lazy >= len(inits):
            return True, dict(problems=[], skipped="no such initializer", **obs)
        v = inits[lazy]
        t = v.const_value

        def boom():
            raise RuntimeError("lazy tensor failed to materialise")

        v.const_value = ir.LazyTensor(boom, dtype=t.dtype, shape=t.shape, name=t.name)
    before = exact_snapshot(m)
    p = pass_table()[pname]()
    raised = None
    try:
        res = p(m)
    except Exception as e:  # noqa: BLE001
        raised = type(e).__name__
        res = None
    after = exact_snapshot(m)
    problems = []
    must_be_unchanged = pname.startswith("Checker") or raised is not None or (res is not None and not res.modified)
    if must_be_unchanged and after != before:
        problems.append("analysis-only: the model is not exactly as before" + _diff(before, after))
    if res is not None and res.model is not m:
        problems.append("identity: in-place pass returned another model object")
    if pname.startswith("Checker") and res is not None and res.modified:
        problems.append("modified flag: the checker reported a modification")
    obs["raised"] = raised
    return (not problems), dict(problems=problems, **obs)


def _diff(before, after):
    (s0, e0), (s1, e1) = before, after
    out = []
    for a, b in zip(e0, e1):
        if a != b:
            out.append(f" [{a[0]} of graph {a[1]}: {[x[0] if isinstance(x, tuple) else '#' for x in a[2]]} -> {[x[0] if isinstance(x, tuple) else '#' for x in b[2]]}]")
    for k in s0:
        if s1.get(k) != s0[k]:
            out.append(f" [{k}: {str(s0[k])[:90]} -> {str(s1.get(k))[:90]}]")
    return "".join(out[:3])


def keys_for(tier):
    keys = []
    for mname in models.MODELS:
        keys.append((mname, "contract"))
        keys.append((mname, "analysis"))
    return keys


def run(chk, tier):
    chk.fn("passes._pass_infra.PassBase.__call__ / Sequential / PassManager / functionalize", "passes.common._c_api_utils.call_onnx_api", "passes.common.onnx_checker.CheckerPass",
           "passes.common.shape_inference.ShapeInferencePass/_merge_func", *[f"passes.common.{n}" for n in pass_names() if n not in ANALYSIS])
    chk.assume(
        "the strip limit _BIG_TENSOR_SIZE_LIMIT of call_onnx_api is a symbolic integer in a shadow copy of the module (0..4000); the family's initializers are 4..160 bytes",
        "ONNX-boundary faults: an initializer whose LazyTensor raises when serialized; onnx.checker.check_model / onnx.shape_inference.infer_shapes raising (stubbed around the real functions)",
        "a pass that refuses a model by raising (other than the in-place/functional identity PassError) is not judged here",
        "pre-state variation: a symbolic bit mask selects which of the first 3 initializers are also listed as graph inputs",
        "every explored path is re-executed natively with the path's witness and must give the same observation",
    )
    chk.bounds = dict(models=list(models.MODELS), passes=pass_names(), invocation=["direct + repeated application", "functionalize()", "PassManager(steps=bound+1)", "PassManager([functionalize(p)]) applied three times to its own output"],
                      fixpoint_bound="#nodes + #values + #functions + 2", faults=dict(big="0..4000", lazy="-1..3", api="0..1"))
    chk.not_decided += ["pass-manager compositions of several different passes (C05 runs pairs/triples for semantics)", "models outside the family"]
    import logging

    logging.disable(logging.CRITICAL)
    hist.run_cases(chk, "harness.C14", "make_case", keys_for(tier))
    chk.extra["rule"] = "one case per (model, group); pass selector / mode / faults symbolic"


def replay(rec):
    case = make_case("quick", tuple(rec["key"]))
    ok, obs = case.body(dict(rec["args"]))
    print(obs)
    return not ok
