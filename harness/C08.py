"""C08 — an interrupted external-data save never damages an existing data file.

The real `_io.save -> external_data.unload_from_model -> _write_external_tensors ->
convert_tensors_to_external -> _write_external_data -> _ExternalDataWriter` and the real
`ExternalTensor` (load / tofile / release / invalidate) run on the in-memory file system of
engine.fsmodel, in which every state-changing call is a numbered effect.

* The index of the effect that fails with OSError is a SYMBOLIC integer (the comparison inside the
  model forks the path, z3 decides which positions exist on the path), likewise the index of the tensor
  or callback invocation that raises, the way it raises (before writing / after half of its bytes) and
  the size threshold that splits initializers into external and inline ones.
* "The process dies between two effects" is checked on EVERY path at EVERY effect boundary: the
  boundary hook evaluates the crash oracle on the state the dead process would leave behind.

Oracles (from the property text): at every boundary a pre-existing destination holds exactly its old
bytes or exactly the complete new file; every other pre-existing file is untouched; when the save
raises before the destination was replaced the destination holds the old bytes, nothing but the
destination/model file was added to the directory tree, tensors backed by the destination are still
valid and read their old bytes; a tensor is invalid only if its backing file was replaced; a sharded
save never changes a pre-existing file; a successful save leaves exactly the complete new file.
"""
from __future__ import annotations

import operator
import types

import numpy as np

from engine import fsmodel, hist, shadow, vthreads, zsym
from engine.zsym import SInt

LEVEL = "fault_enumeration"
TECHNIQUE = ("symbolic execution (zsym/z3) of the real save path on an in-memory file system: failing effect / raising tensor / raising callback / "
             "threshold are symbolic integers; crash oracle evaluated at every effect boundary of every path; per-path native re-execution")

_ENV: dict = {}
CUR: dict = {}


class _Delegate:
    def __init__(self, name):
        object.__setattr__(self, "_name", name)

    def __getattr__(self, k):
        return getattr(CUR[object.__getattribute__(self, "_name")], k)


def _open(*a, **kw):
    return CUR["open"](*a, **kw)


class _Log:
    def warning(self, *a, **k):
        pass

    info = debug = error = warning


class _FakeSerde:
    @staticmethod
    def serialize_model(model):
        return ("proto-of", model)


class _FakeOnnx:
    @staticmethod
    def save(proto, path, format=None):  # noqa: A002
        with _open(path, "wb") as f:
            f.write(b"ONNXMODEL")


def env(par=False):
    key = "par" if par else "ser"
    if key not in _ENV:
        osd, shd, tmpd, mmd = _Delegate("os"), _Delegate("shutil"), _Delegate("tempfile"), _Delegate("mmap")
        core = shadow.load("onnx_ir._core", os=osd, open=_open, mmap=mmd)
        extra = dict(threading=vthreads.threading, concurrent=vthreads.concurrent) if par else {}
        ed = shadow.load("onnx_ir.external_data", _core=core, os=osd, shutil=shd, tempfile=tmpd, open=_open, logger=_Log(), **extra)
        io = shadow.load("onnx_ir._io", _core=core, _external_data=ed, os=osd, onnx=_FakeOnnx, serde=_FakeSerde)
        _ENV[key] = types.SimpleNamespace(core=core, ed=ed, io=io)
    return _ENV[key]


# ---------------------------------------------------------------------------------------------


def _bytes(tag, n):
    return bytes((tag * 16 + i) % 251 + 1 for i in range(n))


def build(scn, P, E):
    """returns dict(fs, model, dest, kwargs, old, originals=[(value, tensor, bytes)], ext=[(tensor, bytes)])"""
    import onnx_ir as ir

    core = E.core
    fs = fsmodel.FS()
    CUR.update(fs.namespaces())
    fs.mkdir_p("/m")
    sizes = {"a": 4, "b": 6, "c": 9, "d": 3}
    payload = {k: _bytes(i + 1, n) for i, (k, n) in enumerate(sizes.items())}
    tf = P.get("tf", -1)
    tmode = P.get("tmode", 0)

    def mem(name, idx):
        arr = np.frombuffer(payload[name], dtype=np.uint8).copy()
        t = core.Tensor(arr, name=name)
        if isinstance(tf, int) and tf < 0:
            return t
        if tmode in (1, 2):
            return _MaybePartial(t, tf, idx, SystemExit if tmode == 2 else RuntimeError)   # the selected index fails after half of its bytes

        def fn(t=t, idx=idx):
            if tf == idx:
                raise RuntimeError(f"tensor {t.name} failed to materialise")
            return t

        return core.LazyTensor(fn, dtype=t.dtype, shape=t.shape, name=name)

    dest = "/m/w.bin"
    kwargs = dict(external_data="w.bin")
    old = {}
    ext = []
    vals = []

    def external(name, path_rel, off, base="/m"):
        t = core.ExternalTensor(path_rel, off, sizes[name], ir.DataType.UINT8, shape=ir.Shape([sizes[name]]), name=name, base_dir=base)
        ext.append((t, payload[name]))
        return t

    if scn == "fresh":            # no destination yet; an unrelated file lives in the directory
        fs.put("/m/other.bin", b"UNRELATED")
        tensors = [mem("a", 0), mem("b", 1), mem("c", 2)]
    elif scn == "foreign":        # destination exists, belongs to nobody in this model
        fs.put(dest, b"OLD-FOREIGN-CONTENT", mode=0o600)
        fs.put("/m/other.bin", b"UNRELATED")
        tensors = [mem("a", 0), mem("b", 1), mem("c", 2)]
    elif scn == "readonly":       # destination exists and is read-only (mode 0o444)
        fs.put(dest, b"OLD-READ-ONLY-CONTENT", mode=0o444)
        tensors = [mem("a", 0), mem("b", 1)]
    elif scn == "own":            # re-save onto the model's own data file: a, c external in it (c listed first on disk), b in memory
        blob = b"PAD" + payload["c"] + payload["a"] + b"TAIL"
        fs.put(dest, blob)
        tensors = [external("a", "w.bin", 3 + sizes["c"]), mem("b", 1), external("c", "w.bin", 3), mem("d", 3)]
    elif scn == "own+other":      # external tensors in the destination AND in another file that must stay valid
        fs.put(dest, b"XX" + payload["a"])
        fs.put("/m/keep.bin", payload["c"] + b"Z")
        tensors = [external("a", "w.bin", 2), mem("b", 1), external("c", "keep.bin", 0)]
    elif scn == "own+twin":       # a second data file with the SAME relative name under another base directory (a model assembled from two loaded models)
        fs.put(dest, b"XX" + payload["a"])
        fs.mkdir_p("/n")
        fs.put("/n/w.bin", b"YYY" + payload["c"] + b"Z")
        first, third = external("a", "w.bin", 2), external("c", "w.bin", 3, base="/n")
        tensors = [first, mem("b", 1), third] if not P.get("ord", 0) else [third, mem("b", 1), first]
    elif scn == "symlink":        # destination is a symlink into a sub-directory; the model reads through the link
        fs.mkdir_p("/m/store")
        fs.put("/m/store/real.bin", b"Q" + payload["a"] + payload["b"])
        fs.symlink(dest, "store/real.bin")
        tensors = [external("a", "w.bin", 1), mem("c", 2), external("b", "w.bin", 1 + sizes["a"])]
    elif scn == "hardlink":       # destination has a second name; the other name keeps the old bytes
        fs.put(dest, b"OLD-LINKED")
        fs.hardlink("/m/alias.bin", dest)
        tensors = [mem("a", 0), mem("b", 1)]
    elif scn == "sharded":        # sharded save next to pre-existing files (one of them looks like a shard of another layout)
        fs.put("/m/w.bin", b"PLAIN-NAMED-OLD")
        fs.put("/m/w-00001-of-00007.bin", b"SHARD-OF-ANOTHER-LAYOUT")
        tensors = [mem("a", 0), mem("b", 1), mem("c", 2)]
        kwargs["max_shard_size_bytes"] = P["M"]
    elif scn == "sharded-collision":   # one destination shard already exists
        fs.put("/m/w-00001-of-00002.bin", b"EXISTING-SHARD")
        fs.put("/m/w.bin", b"PLAIN-NAMED-OLD")
        tensors = [mem("a", 0), mem("b", 1), mem("c", 2)]
        kwargs["max_shard_size_bytes"] = P["M"]
    else:
        raise AssertionError(scn)

    inits = []
    for t in tensors:
        v = ir.Value(name=t.name, const_value=t)
        inits.append(v)
        vals.append((v, t))
    node = ir.Node("", "Concat", inits, name="n")
    g = ir.Graph([], [node.outputs[0]], nodes=[node], initializers=inits, name="g")
    model = ir.Model(g, ir_version=10)
    return dict(fs=fs, model=model, dest=dest, kwargs=kwargs, ext=ext, vals=vals, payload=payload, sizes=sizes, names=[t.name for t in tensors])


class _MaybePartial:
    """in-memory tensor whose tofile() - for the selected index - writes half of its bytes and then raises"""

    def __init__(self, real, tf, idx, exc=RuntimeError):
        self._real, self._tf, self._idx, self._exc = real, tf, idx, exc
        self.name, self.dtype, self.shape, self.nbytes, self.size = real.name, real.dtype, real.shape, real.nbytes, real.size

    def tobytes(self):
        return self._real.tobytes()

    def numpy(self):
        return self._real.numpy()

    def tofile(self, file):
        if self._tf == self._idx:
            b = self._real.tobytes()
            file.write(b[: (len(b) + 1) // 2])
            raise self._exc(f"tensor {self.name} failed after writing half of its bytes")
        file.write(self._real.tobytes())


SCENARIOS = ["fresh", "foreign", "readonly", "own", "own+other", "own+twin", "symlink", "hardlink", "sharded", "sharded-collision"]
FAULTS = ["none", "fs", "tensor-before", "tensor-mid", "callback", "callback-interrupt", "tensor-exit"]
FAULTS_THOROUGH = FAULTS + ["fs2"]     # two failing effects: the second one hits the error handling / clean-up of the first


TMAX = 40


def make_case(tier, key):
    scn, fault = key
    ranges = {"T": (0, 10)}
    if scn.startswith("par:"):
        ranges["T"] = (0, 3)   # all initializers external: the parallel writer needs >= 2 tensors
        for t in range(TMAX):
            ranges[f"s{t}"] = (0, 7)
    if fault in ("fs", "fs2"):
        ranges["fa"] = (0, 60)
    if fault == "fs2":
        ranges["gap"] = (1, 6)
    if fault in ("tensor-before", "tensor-mid", "tensor-exit"):
        ranges["tf"] = (0, 3)
    if fault in ("callback", "callback-interrupt"):
        ranges["cf"] = (0, 3)
    if "sharded" in scn:
        ranges["M"] = (1, 20)
    if scn == "own+twin":
        ranges["ord"] = (0, 1)

    def body(P):
        return run_scenario(scn, fault, P)

    def sig(args, obs):
        return f"C08:{scn}:{fault}:" + (obs["problems"][0].split(":")[0][:70] if obs["problems"] else "?")

    def describe(args, obs):
        return f"scenario {scn}, fault {fault} {args}: " + "; ".join(obs["problems"][:3]) + f" | effects: {obs.get('effects')}"

    return hist.Case(f"{scn}[{fault}]", ranges, body, group=scn, meta=dict(sig=sig, describe=describe))


def run_scenario(scn, fault, P):
    par = scn.startswith("par:")
    E = env(par)
    if par:
        scn = scn[4:]
    Q = dict(P)
    if fault == "tensor-before":
        Q["tmode"] = 0
    elif fault == "tensor-mid":
        Q["tmode"] = 1
    elif fault == "tensor-exit":
        Q["tmode"] = 2      # the tensor's tofile() raises SystemExit (a BaseException that is not an Exception) half way
    else:
        Q["tf"] = -1
    S = build(scn, Q, E)
    fs, model, dest, kwargs = S["fs"], S["model"], S["dest"], S["kwargs"]
    T = P["T"]
    problems: list[str] = []

    def problem(p):
        if p not in problems:
            problems.append(p)

    before = fs.listing()
    dest_real = fs.resolve(dest)
    old_dest = fs.read(dest)
    old_ino = fs.inode(dest)
    sharded = "max_shard_size_bytes" in kwargs
    # expected complete new single file: tensors larger than the threshold, declaration order, dense
    exp = {}

    def expected_new():
        if "v" not in exp:
            out = b""
            for name in S["names"]:
                if S["sizes"][name] > T:
                    out += S["payload"][name]
            exp["v"] = out
        return exp["v"]

    state = dict(replaced=False)

    def boundary(i, label):
        # the state a process dying here leaves behind
        now = fs.listing()
        for p, n in before.items():
            if p == dest_real and not sharded:
                continue
            if now.get(p) != n and not (n[0] == "file" and now.get(p, (None,))[0] == "file" and now[p][1] == n[1] and now[p][3] == n[3]):
                problem(f"pre-existing {p} changed: at the boundary before effect {i} ({label.split(' ')[0]})")
        if not sharded and old_dest is not None:
            cur = fs.read(dest)
            if cur != old_dest and cur != expected_new():
                problem(f"destination holds neither its old bytes nor the complete new file: at the boundary before effect {i} ({label.split(' ')[0]}): {cur!r}")

    fs.on_boundary = boundary
    if fault in ("fs", "fs2"):
        fs.fail_at = P["fa"]
    if fault == "fs2":
        fs.fail_gap = P["gap"]
    cb_calls = []

    def callback(tensor, info):
        cb_calls.append(operator.index(info.index))
        if fault in ("callback", "callback-interrupt") and P["cf"] == len(cb_calls) - 1:
            raise (KeyboardInterrupt if fault == "callback-interrupt" else RuntimeError)("callback failed")

    raised = None
    counter = [0]

    def choose(n, what):
        t = counter[0]
        counter[0] += 1
        if t >= TMAX:
            raise zsym.Unsupported("schedule longer than the declared choice vector")
        return hist.choice(P[f"s{t}"], n)

    try:
        if par:
            try:
                vthreads.run(lambda: E.io.save(model, "/m/model.onnx", size_threshold_bytes=T, callback=callback, max_workers=2, **kwargs),
                             choose, max_preemptions=1)
            except vthreads.Deadlock as e:
                problem(f"deadlock: {e}")
        else:
            E.io.save(model, "/m/model.onnx", size_threshold_bytes=T, callback=callback, **kwargs)
    except (OSError, RuntimeError, ValueError, KeyboardInterrupt, SystemExit) as e:
        raised = f"{type(e).__name__}"
        raised_msg = str(e)
    boundary(fs.n_effects, "end of save")
    after = fs.listing()
    applied = [l for i_, l in enumerate(fs.log) if i_ not in (fs.failed, fs.failed2)]     # effects that really took place
    replaced = fs.inode(dest) is not old_ino and fs.inode(dest) is not None and any(l.startswith("replace ") and l.endswith(dest_real) for l in applied) if not sharded else False

    added = {p for p in after if p not in before}
    if raised is not None:
        if fault == "none" and not (sharded and raised == "FileExistsError" and not fs.log):
            problem(f"save raised {raised} without any injected fault: {raised_msg[:80]}")
        allowed = {"/m/model.onnx"}
        if not sharded:
            allowed.add(dest_real)
        left = sorted(added - allowed)
        if sharded:
            # shard files completed before the failure may remain; temporary files/directories may not
            left = [p for p in left if "/." in p or ".T" in p]
        cleanup_failed = (fs.failed is not None and fs.log[fs.failed].split(" ")[0] in ("remove", "rmdir")) or fs.failed2 is not None
        if left and not cleanup_failed:   # when the clean-up's own remove/rmdir is the failing effect, leftovers are unavoidable
            problem(f"temporary files/directories remain after the failed save: {left}")
        if not sharded and old_dest is not None and not replaced and fs.read(dest) != old_dest:
            problem("failed save: destination does not hold its previous bytes although it was never replaced")
        if not sharded and old_dest is None and not replaced and fs.read(dest) is not None and fs.read(dest) != expected_new():
            problem("failed save: a partial new data file was left at the destination")
    else:
        if fault in ("fs", "fs2") and fs.failed is not None:
            # an injected OSError may be swallowed only by best-effort clean-up
            lab = fs.log[fs.failed]
            if not (lab.startswith("remove ") or lab.startswith("rmdir ")):
                problem(f"injected failure of effect {fs.failed} ({lab.split(' ')[0]}) was swallowed and the save reported success")
        if not sharded:
            if fs.read(dest) != expected_new() and any(S["sizes"][n] > T for n in S["names"]):
                problem(f"successful save: destination is not the complete new file: {fs.read(dest)!r} vs {expected_new()!r}")
        left = sorted(p for p in added if "/." in p or ".T" in p)
        if left:
            problem(f"temporary files/directories remain after a successful save: {left}")
    # external tensors: invalid only if their backing file was replaced; otherwise still readable with their old bytes
    for t, data in S["ext"]:
        backed = fs.resolve(t.path) == dest_real
        if not t.valid():
            if not (backed and replaced):
                problem(f"external tensor {t.name} invalidated although its backing file {t.path} was not replaced")
        else:
            # (the converse - a tensor that stays valid although its file was replaced - is not part of the statement: small external
            #  tensors are copied to memory before the write and the orphaned objects keep pointing into the old layout)
            if not (backed and replaced):
                try:
                    got = bytes(t.tobytes())
                except Exception as e:  # noqa: BLE001
                    got = f"{type(e).__name__}: {e}"
                if got != data:
                    problem(f"external tensor {t.name} (backing file not replaced) no longer reads its bytes: {got!r}")
    if scn == "hardlink" and fs.read("/m/alias.bin") != b"OLD-LINKED":
        problem("the other hard link of the destination lost the old bytes")
    return (not problems), dict(problems=problems, raised=raised, effects=len(fs.log), failed=fs.failed is not None, replaced=bool(replaced))


PAR_SCENARIOS = ["par:foreign", "par:own", "par:sharded"]


def keys_for(tier):
    keys = []
    for s in SCENARIOS + PAR_SCENARIOS:
        for f in (FAULTS_THOROUGH if tier == "thorough" and not s.startswith("par:") else FAULTS):
            keys.append((s, f))
    return keys


def run(chk, tier):
    chk.fn("_io.save", "external_data.unload_from_model", "external_data._write_external_tensors", "external_data.convert_tensors_to_external",
           "external_data._write_external_data", "external_data._ExternalDataWriter.write/_write_serial/_write_tensor", "external_data._write_tensor_at",
           "external_data._check_no_existing_shard_files", "external_data._shard_tensors", "external_data._external_tensor_to_memory_tensor",
           "external_data._paths_refer_to_same_file", "_core.ExternalTensor._load/numpy/tobytes/tofile/release/invalidate/valid/_check_path_containment",
           "_core.Tensor.tofile/tobytes", "_core.LazyTensor")
    chk.assume(
        "os / shutil / tempfile / open / mmap are the in-memory POSIX-subset file system of engine.fsmodel (contracts in its docstring: atomic os.replace, in-place truncate/write, mmap follows the inode, unique mkdtemp)",
        "a write of n > 1 bytes is two effects (a process can die after a prefix); every effect is a crash boundary and a candidate for the injected OSError",
        "destination file objects expose no OS-level descriptor (fileno raises), so the portable write paths are taken; the descriptor fast paths (ndarray.tofile, copy_file_range) are C04's subject",
        "serde.serialize_model and onnx.save are stubs (the model file write is one more effect sequence on the same file system)",
        "exactly one fault per run: one failing effect, or one raising tensor (before writing / after half of its bytes; RuntimeError or SystemExit), or one raising callback (RuntimeError or KeyboardInterrupt)",
        "every explored path is re-executed natively with the path's witness and must give the same observation",
    )
    chk.bounds = dict(scenarios=SCENARIOS + PAR_SCENARIOS, parallel="par:* scenarios run the same save with max_workers=2 on virtual threads (engine.vthreads), every schedule with <= 1 preemption", faults=FAULTS, tensors="3-4 initializers of 3..9 bytes (in-memory, lazy, external in the destination, external elsewhere)",
                      threshold="symbolic 0..10", failing_effect="symbolic 0..60 (every effect of every path)", shard_limit="symbolic 1..20")
    chk.not_decided += ["kernel guarantees (rename atomicity, durability / fsync ordering)", "more than two faults in one save; with two faults (thorough tier: a second failing effect 1..6 effects after the first) left-over temporary files are tolerated, the destination oracles are not relaxed",
                        "the parallel writer beyond max_workers=2 with <= 1 preemption (its synchronisation is C09's subject)"]
    hist.run_cases(chk, "harness.C08", "make_case", keys_for(tier))
    chk.extra["rule"] = "one case per (scenario, fault kind); fault position, threshold and shard limit symbolic; crash oracle at every effect boundary of every path"


def replay(rec):
    case = make_case("quick", tuple(rec["key"]))
    ok, obs = case.body(dict(rec["args"]))
    print(obs)
    return not ok
