"""C16 — symbolic dimensions compute, print and re-parse with integer semantics.

Engine E4 (translation validation in integer/real arithmetic).  The real operator overloads of
`SymbolicDim`, `simplify`, `evaluate` (complete and partial bindings), `str()`, the expression parser
and `serde.serialize_dimension_into` are executed on concrete expression trees; their results
(SymPy expressions) are translated to z3 and compared with an independent reference semantics of
the tree FOR ALL positive integer bindings of the symbols.  The parser is compared with Python's own
grammar (`ast`) on every token string of the documented grammar up to a length bound.
"""
from __future__ import annotations

import ast
import itertools
import math
from fractions import Fraction

import sympy
import z3

from engine.common import Inconclusive, parallel

LEVEL = "translation_validation"
TECHNIQUE = "translation validation: SymPy results of the real SymbolicDim/parser code translated to z3 (Real + ToInt) and proved equal to a reference semantics for all positive integer bindings (NIA); counterexample bindings replayed with exact Fractions"

SYMS = ("N", "M")
UNARY = ("neg", "floor", "ceil", "trunc")
BINARY = ("+", "-", "*", "//", "/", "%", "min", "max")


# ---- reference semantics ------------------------------------------------------------------------


def zdiv(a, b, env):
    """a / b with b != 0 recorded as a definedness condition.  A non-constant divisor is encoded
    relationally (q * b == a) because z3's uninterpreted division-by-zero function otherwise leaks into models."""
    env["defined"].append(b != 0)
    if z3.is_rational_value(z3.simplify(b)):
        return a / b
    memo = env.setdefault("divs", {})
    key = (z3.simplify(a).sexpr(), z3.simplify(b).sexpr())
    if key in memo:
        return memo[key]  # the same quotient on both sides of an equivalence is the same term
    q = z3.Real(f"q{len(memo)}")
    env["defined"].append(q * b == a)
    memo[key] = q
    return q



def ref_z3(t, env):
    op = t[0]
    if op == "sym":
        return z3.ToReal(env["syms"].setdefault(t[1], z3.Int(t[1])))
    if op == "int":
        return z3.RealVal(t[1])
    a = ref_z3(t[1], env)
    if op == "neg":
        return -a
    if op == "floor":
        return z3.ToReal(z3.ToInt(a))
    if op == "ceil":
        return -z3.ToReal(z3.ToInt(-a))
    if op == "trunc":
        return z3.If(a >= 0, z3.ToReal(z3.ToInt(a)), -z3.ToReal(z3.ToInt(-a)))
    b = ref_z3(t[2], env)
    if op == "+":
        return a + b
    if op == "-":
        return a - b
    if op == "*":
        return a * b
    if op == "min":
        return z3.If(a <= b, a, b)
    if op == "max":
        return z3.If(a >= b, a, b)
    if op == "/":
        return zdiv(a, b, env)
    if op == "//":
        return z3.ToReal(z3.ToInt(zdiv(a, b, env)))
    if op == "%":
        return a - b * z3.ToReal(z3.ToInt(zdiv(a, b, env)))
    raise AssertionError(op)


def ref_exact(t, binding):
    """exact rational value (Fractions) or None if undefined"""
    op = t[0]
    if op == "sym":
        return Fraction(binding[t[1]])
    if op == "int":
        return Fraction(t[1])
    a = ref_exact(t[1], binding)
    if a is None:
        return None
    if op == "neg":
        return -a
    if op == "floor":
        return Fraction(math.floor(a))
    if op == "ceil":
        return Fraction(math.ceil(a))
    if op == "trunc":
        return Fraction(math.trunc(a))
    b = ref_exact(t[2], binding)
    if b is None:
        return None
    if op == "+":
        return a + b
    if op == "-":
        return a - b
    if op == "*":
        return a * b
    if op == "min":
        return min(a, b)
    if op == "max":
        return max(a, b)
    if b == 0:
        return None
    if op == "/":
        return a / b
    if op == "//":
        return Fraction(math.floor(a / b))
    if op == "%":
        return a - b * math.floor(a / b)
    raise AssertionError(op)


def show(t):
    op = t[0]
    if op in ("sym", "int"):
        return str(t[1])
    if op in UNARY:
        return f"{op}({show(t[1])})"
    if op in ("min", "max"):
        return f"{op}({show(t[1])}, {show(t[2])})"
    return f"({show(t[1])} {op} {show(t[2])})"


# ---- the library under test -----------------------------------------------------------------------


def build(t, ir):
    """Evaluate the tree with the real SymbolicDim operator overloads (ints stay ints)."""
    op = t[0]
    if op == "sym":
        return ir.SymbolicDim(t[1])
    if op == "int":
        return t[1]
    a = build(t[1], ir)
    if op == "neg":
        return -a
    if op == "floor":
        return math.floor(a)
    if op == "ceil":
        return math.ceil(a)
    if op == "trunc":
        return math.trunc(a)
    b = build(t[2], ir)
    if op in ("min", "max"):
        # min/max of dimensions are written in the textual form (there is no operator for them)
        sa = f"({a.value})" if isinstance(a, ir.SymbolicDim) else str(a)
        sb = f"({b.value})" if isinstance(b, ir.SymbolicDim) else str(b)
        if not isinstance(a, ir.SymbolicDim) and not isinstance(b, ir.SymbolicDim):
            return min(a, b) if op == "min" else max(a, b)
        return ir.SymbolicDim(f"{op}({sa}, {sb})")
    if op == "+":
        return a + b
    if op == "-":
        return a - b
    if op == "*":
        return a * b
    if op == "/":
        return a / b
    if op == "//":
        return a // b
    if op == "%":
        return a % b
    raise AssertionError(op)


class Untranslatable(Exception):
    pass


def somewhere_defined(t):
    env = {"syms": {}, "defined": []}
    ref_z3(t, env)
    s = z3.Solver()
    s.set("timeout", 3000)
    for v in env["syms"].values():
        s.add(v >= 1)
    s.add(*env["defined"])
    return str(s.check()) != "unsat"


def sym_z3(e, env):
    """SymPy expression -> z3 Real term (exact semantics; definedness side conditions in env)."""
    if e.is_Integer:
        return z3.RealVal(int(e))
    if e.is_Rational:
        return z3.Q(int(e.p), int(e.q))
    if e.is_Symbol:
        return z3.ToReal(env["syms"].setdefault(str(e), z3.Int(str(e))))
    if e.is_Add:
        r = sym_z3(e.args[0], env)
        for a in e.args[1:]:
            r = r + sym_z3(a, env)
        return r
    if e.is_Mul:
        r = sym_z3(e.args[0], env)
        for a in e.args[1:]:
            r = r * sym_z3(a, env)
        return r
    if e.is_Pow:
        b, x = e.args
        if x.is_Integer:
            n = int(x)
            bz = sym_z3(b, env)
            r = z3.RealVal(1)
            for _ in range(abs(n)):
                r = r * bz
            if n < 0:
                return zdiv(z3.RealVal(1), r, env)
            return r
        raise Untranslatable(f"non-integer power {e}")
    if isinstance(e, sympy.floor):
        return z3.ToReal(z3.ToInt(sym_z3(e.args[0], env)))
    if isinstance(e, sympy.ceiling):
        return -z3.ToReal(z3.ToInt(-sym_z3(e.args[0], env)))
    if isinstance(e, sympy.Mod):
        a, b = (sym_z3(x, env) for x in e.args)
        return a - b * z3.ToReal(z3.ToInt(zdiv(a, b, env)))
    if isinstance(e, sympy.Max):
        r = sym_z3(e.args[0], env)
        for a in e.args[1:]:
            az = sym_z3(a, env)
            r = z3.If(az > r, az, r)
        return r
    if isinstance(e, sympy.Min):
        r = sym_z3(e.args[0], env)
        for a in e.args[1:]:
            az = sym_z3(a, env)
            r = z3.If(az < r, az, r)
        return r
    if isinstance(e, sympy.Abs):
        a = sym_z3(e.args[0], env)
        return z3.If(a >= 0, a, -a)
    if isinstance(e, sympy.sign):
        a = sym_z3(e.args[0], env)
        return z3.If(a > 0, z3.RealVal(1), z3.If(a < 0, z3.RealVal(-1), z3.RealVal(0)))
    if isinstance(e, sympy.Piecewise):
        r = None
        for val, cond in reversed(e.args):
            v = sym_z3(val, env)
            r = v if r is None or cond is sympy.true else z3.If(rel_z3(cond, env), v, r)
        return r
    raise Untranslatable(f"{type(e).__name__}: {e}")


def rel_z3(c, env):
    if c is sympy.true:
        return z3.BoolVal(True)
    if c is sympy.false:
        return z3.BoolVal(False)
    ops = {sympy.StrictGreaterThan: lambda a, b: a > b, sympy.GreaterThan: lambda a, b: a >= b, sympy.StrictLessThan: lambda a, b: a < b,
           sympy.LessThan: lambda a, b: a <= b, sympy.Eq: lambda a, b: a == b, sympy.Ne: lambda a, b: a != b}
    for k, f in ops.items():
        if isinstance(c, k):
            return f(sym_z3(c.args[0], env), sym_z3(c.args[1], env))
    raise Untranslatable(f"relation {c}")


def sym_exact(e, binding):
    """value of a sympy expression at an integer binding, as Fraction (sympy's own exact arithmetic)"""
    v = e.subs({s: binding[str(s)] for s in e.free_symbols})
    v = sympy.nsimplify(v) if not v.is_Rational else v
    if v.is_Rational:
        return Fraction(int(v.p), int(v.q))
    return None


# ---- solver helpers -------------------------------------------------------------------------------


class Stats:
    def __init__(self):
        self.queries = 0
        self.solver_s = 0.0


BOUNDED = 24  # fallback domain for queries the non-linear solver cannot decide over all integers


def differ(lhs, rhs, env, st, timeout_ms=4000, bounded=False):
    """exists positive integer binding where both are defined and differ?  -> ('unsat'|'sat'|'unknown', binding)"""
    import time

    if z3.eq(z3.simplify(lhs), z3.simplify(rhs)):
        st.queries += 1
        return "unsat", None
    s = z3.Solver()
    s.set("timeout", timeout_ms if not bounded else 30000)
    for v in env["syms"].values():
        s.add(v >= 1)
        if bounded:
            s.add(v <= BOUNDED)
    s.add(*env["defined"])
    s.add(lhs != rhs)
    t = time.time()
    r = str(s.check())
    st.queries += 1
    st.solver_s += time.time() - t
    if r == "sat" and not z3.is_true(s.model().eval(lhs != rhs, model_completion=True)):
        r = "unknown"  # incomplete non-linear model: never trusted
    if r == "sat":
        m = s.model()
        # prefer small bindings
        for bound in (4, 16, 64):
            s.push()
            for v in env["syms"].values():
                s.add(v <= bound)
            st.queries += 1
            if str(s.check()) == "sat" and z3.is_true(s.model().eval(lhs != rhs, model_completion=True)):
                m = s.model()
                s.pop()
                break
            s.pop()
        return r, {k: m.eval(v, model_completion=True).as_long() for k, v in env["syms"].items()}
    if r == "unknown" and bounded:
        # last resort inside the bounded domain: one ground query per binding
        names = list(env["syms"])
        for vals in itertools.product(range(1, BOUNDED + 1), repeat=len(names)):
            g = z3.Solver()
            g.set("timeout", 5000)
            for k, v in zip(names, vals):
                g.add(env["syms"][k] == v)
            g.add(*env["defined"])
            g.add(lhs != rhs)
            st.queries += 1
            rg = str(g.check())
            if rg == "sat" and z3.is_true(g.model().eval(lhs != rhs, model_completion=True)):
                return "sat", dict(zip(names, vals))
            if rg == "unknown":
                return "unknown", None
        return "unsat", None
    if r == "unknown" and not bounded:
        r2, b2 = differ(lhs, rhs, env, st, timeout_ms, bounded=True)
        if r2 == "unsat":
            st.bounded_only = getattr(st, "bounded_only", 0) + 1
            return "unsat", None
        return r2, b2
    return r, None


# ---- obligations per tree ---------------------------------------------------------------------------


def _mentions_symbol(t):
    return isinstance(t, (list, tuple)) and (t[0] == "sym" or any(_mentions_symbol(x) for x in t[1:]))


def check_tree(chk, t, st, ir, parse):
    """All obligations for one expression tree.  Returns number of undecided queries."""
    from onnx_ir import serde
    import onnx

    label = show(t)
    if not somewhere_defined(t):
        return 0  # a divisor is zero for every binding: the tree has no value anywhere
    try:
        d = build(t, ir)
    except ZeroDivisionError:
        chk.obligations += 1
        chk.violation("C16:build:zerodivision", f"{label}: building the expression raised ZeroDivisionError although it is defined for some binding", dict(kind="build", tree=t))
        return 0
    if not isinstance(d, ir.SymbolicDim) and not _mentions_symbol(t):
        return 0  # a tree of integer literals only: Python's own arithmetic, nothing of the library is exercised
    if not isinstance(d, ir.SymbolicDim):
        # the library folded an expression over symbols to a constant: compare exactly
        want = ref_exact(t, {})
        chk.obligations += 1
        if want is not None and Fraction(d) == want:
            chk.discharged += 1
        elif want is not None:
            chk.violation("C16:eval:const", f"{label}: python value {d} != {want}", dict(kind="const", tree=t))
        else:
            chk.discharged += 1
        return 0
    undecided = 0
    unknown_log = chk.extra.setdefault("unknown_log", [])
    env = {"syms": {}, "defined": []}
    want = ref_z3(t, env)
    for s in SYMS:
        env["syms"].setdefault(s, z3.Int(s))

    def compare(what, expr, sig, extra_env=None, want_term=None):
        nonlocal undecided
        chk.obligations += 1
        e2 = dict(syms=env["syms"], defined=list(env["defined"]), divs=dict(env.get("divs", {})))
        try:
            got = sym_z3(expr, e2)
        except Untranslatable as ex:
            chk.note_inconclusive(f"{label}: {what}: cannot translate {ex}")
            return
        r, binding = differ(got, want if want_term is None else want_term, e2, st)
        if r == "unsat":
            chk.discharged += 1
        elif r == "sat":
            bad, detail = replay_binding(t, expr, binding, what)
            if bad:
                chk.violation(sig, f"{label}: {what}: {detail}", dict(kind=what, tree=t, expr=str(expr), binding=binding))
            else:
                chk.note_inconclusive(f"{label}: {what}: solver binding {binding} did not reproduce ({detail})")
        else:
            undecided += 1
            unknown_log.append(f"{label}: {what}")

    # 1. operator overloads compute the tree
    compare("evaluate", d._expr, "C16:evaluate:" + _ops(t))
    # 2. simplification keeps every evaluation
    try:
        simp = d.simplify()
        compare("simplify", simp._expr, "C16:simplify:" + _ops(t))
    except Exception as ex:  # noqa: BLE001
        chk.obligations += 1
        chk.violation("C16:simplify:raises", f"{label}: simplify() raised {type(ex).__name__}: {ex}", dict(kind="simplify-raises", tree=t))
    # 3. the textual form (what a saved model stores) parses back to the same function
    text = d.value
    dim = onnx.TensorShapeProto.Dimension()
    serde.serialize_dimension_into(dim, d)
    stored = dim.dim_param
    chk.obligations += 1
    if stored != text:
        chk.violation("C16:serialize:text", f"{label}: serialized dim_param {stored!r} != str() {text!r}", dict(kind="serialize", tree=t))
    else:
        chk.discharged += 1
    try:
        back = parse(stored)
    except Exception as ex:  # noqa: BLE001
        chk.obligations += 1
        chk.violation("C16:reparse:rejected:" + _funcs(stored), f"{label}: printed form {stored!r} is rejected by the parser: {ex}",
                      dict(kind="reparse-rejected", tree=t, text=stored))
        back = None
    if back is not None:
        compare("reparse", back, "C16:reparse:" + _ops(t))
        # the deserialised dimension evaluates like the original
    # 3b. with every symbol bound the result is a plain integer (also when all symbols cancelled while building)
    for full in ({"N": 1, "M": 1}, {"N": 3, "M": 2}):
        want_v = ref_exact(t, full)
        if want_v is None or want_v.denominator != 1:
            continue
        chk.obligations += 1
        try:
            got_v = d.evaluate(dict(full))
        except Exception as ex:  # noqa: BLE001
            chk.violation("C16:complete:raises", f"{label}: evaluate({full}) raised {type(ex).__name__}: {ex}", dict(kind="complete", tree=t, binding=full))
            continue
        if isinstance(got_v, ir.SymbolicDim) or not isinstance(got_v, int):
            chk.violation("C16:complete:not-an-int", f"{label}: evaluate({full}) with every symbol bound returned {got_v!r} instead of the integer {int(want_v)}", dict(kind="complete", tree=t, binding=full))
        elif got_v != want_v:
            chk.violation("C16:complete:value", f"{label}: evaluate({full}) = {got_v}, exact value {want_v}", dict(kind="complete", tree=t, binding=full))
        else:
            chk.discharged += 1
    # 4. partial binding then complete binding
    if "N" in d.free_symbols() and "M" in d.free_symbols():
        for k in (1, 2, 5):
            if not somewhere_defined(subst_tree(t, "N", k)):
                continue  # with N = k a divisor is zero for every M
            try:
                res = d.evaluate({"N": k})
            except ZeroDivisionError as ex:
                chk.obligations += 1
                chk.violation("C16:partial:zerodivision", f"{label}: evaluate({{'N': {k}}}) raised {ex} although the expression is defined for some M", dict(kind="partial-raises", tree=t, k=k))
                continue
            chk.obligations += 1
            e3 = {"syms": dict(env["syms"]), "defined": []}
            want_k = ref_z3(subst_tree(t, "N", k), e3)
            if isinstance(res, ir.SymbolicDim):
                if res._expr is None:
                    chk.violation("C16:partial:none", f"{label}: partial binding N={k} lost the expression", dict(kind="partial", tree=t, k=k))
                    continue
                try:
                    got = sym_z3(res._expr, e3)
                except Untranslatable as ex:
                    chk.note_inconclusive(f"{label}: partial N={k}: cannot translate {ex}")
                    continue
            else:
                got = z3.RealVal(int(res))
            r, binding = differ(got, want_k, e3, st)
            if r == "unsat":
                chk.discharged += 1
            elif r == "sat":
                full = dict(binding, N=k)
                bad, detail = replay_partial(t, d, k, full)
                if bad:
                    chk.violation("C16:partial:" + _ops(t), f"{label}: partial binding N={k} then {binding}: {detail}", dict(kind="partial", tree=t, k=k, binding=full))
                else:
                    chk.note_inconclusive(f"{label}: partial binding N={k}: solver binding did not reproduce ({detail})")
            else:
                undecided += 1
                unknown_log.append(f"{label}: partial N={k}")
    return undecided


def subst_tree(t, name, k):
    if t[0] == "sym":
        return ("int", k) if t[1] == name else t
    if t[0] == "int":
        return t
    return (t[0],) + tuple(subst_tree(x, name, k) for x in t[1:])


def _ops(t):
    out = []

    def walk(x):
        if x[0] not in ("sym", "int"):
            out.append(x[0])
            for y in x[1:]:
                walk(y)

    walk(t)
    return ",".join(sorted(set(out)))


def _funcs(text):
    import re

    return ",".join(sorted(set(re.findall(r"[A-Za-z_]+(?=\()", text)))) or "syntax"


def replay_binding(t, expr, binding, what):
    """exact replay: reference by Fractions vs sympy's exact substitution"""
    want = ref_exact(t, binding)
    if want is None:
        return False, "undefined at this binding"
    got = sym_exact(expr, binding)
    if got is None:
        return True, f"at {binding} the library expression {expr} does not evaluate to a rational; exact value is {want}"
    return got != want, f"at {binding}: library gives {got}, exact value is {want}"


def replay_partial(t, d, k, full):
    import onnx_ir as ir

    want = ref_exact(t, full)
    if want is None:
        return False, "undefined"
    res = d.evaluate({"N": k})
    if isinstance(res, ir.SymbolicDim):
        res = res.evaluate({"M": full["M"]})
    if isinstance(res, ir.SymbolicDim):
        got = sym_exact(res._expr, full)
    else:
        got = Fraction(res)
    return got != want, f"library gives {got}, exact value is {want}"


# ---- parser vs Python's grammar ------------------------------------------------------------------------


TOKENS = ["N", "M", "2", "3", "+", "-", "*", "/", "//", "%", "**", "(", ")"]


def py_z3(node, env):
    if isinstance(node, ast.Expression):
        return py_z3(node.body, env)
    if isinstance(node, ast.Constant) and isinstance(node.value, int):
        return z3.RealVal(node.value)
    if isinstance(node, ast.Name):
        return z3.ToReal(env["syms"].setdefault(node.id, z3.Int(node.id)))
    if isinstance(node, ast.UnaryOp) and isinstance(node.op, ast.USub):
        return -py_z3(node.operand, env)
    if isinstance(node, ast.UnaryOp) and isinstance(node.op, ast.UAdd):
        raise Untranslatable("unary plus is not in the documented grammar")
    if isinstance(node, ast.BinOp):
        a, b = py_z3(node.left, env), py_z3(node.right, env)
        if isinstance(node.op, ast.Add):
            return a + b
        if isinstance(node.op, ast.Sub):
            return a - b
        if isinstance(node.op, ast.Mult):
            return a * b
        if isinstance(node.op, ast.Div):
            return zdiv(a, b, env)
        if isinstance(node.op, ast.FloorDiv):
            return z3.ToReal(z3.ToInt(zdiv(a, b, env)))
        if isinstance(node.op, ast.Mod):
            return a - b * z3.ToReal(z3.ToInt(zdiv(a, b, env)))
        if isinstance(node.op, ast.Pow):
            if isinstance(node.right, ast.Constant) and isinstance(node.right.value, int) and 0 <= node.right.value <= 3:
                r = z3.RealVal(1)
                for _ in range(node.right.value):
                    r = r * a
                return r
            if isinstance(node.right, ast.UnaryOp) and isinstance(node.right.op, ast.USub) and isinstance(node.right.operand, ast.Constant) and node.right.operand.value in (1, 2, 3):
                r = z3.RealVal(1)
                for _ in range(node.right.operand.value):
                    r = r * a
                return zdiv(z3.RealVal(1), r, env)
            raise Untranslatable("power with a non-constant exponent")
    if isinstance(node, ast.Call) and isinstance(node.func, ast.Name):
        args = [py_z3(a, env) for a in node.args]
        f = node.func.id
        if f in ("max", "Max") and len(args) == 2:
            return z3.If(args[0] >= args[1], args[0], args[1])
        if f in ("min", "Min") and len(args) == 2:
            return z3.If(args[0] <= args[1], args[0], args[1])
        if f == "floor" and len(args) == 1:
            return z3.ToReal(z3.ToInt(args[0]))
        if f in ("mod", "Mod") and len(args) == 2:
            return args[0] - args[1] * z3.ToReal(z3.ToInt(zdiv(args[0], args[1], env)))
    raise Untranslatable(ast.dump(node)[:60])


_MUL = ("*", "/", "//", "%")
CHAINS = (
    [("N", a, x, b, "-", y) for a in _MUL for b in _MUL for x in ("2", "3", "M") for y in ("2", "3", "M")]
    + [("N", a, x, b, "(", "-", y, ")") for a in ("//", "%") for b in ("//", "%") for x in ("2", "M") for y in ("2", "3")]
    + [("-", "N", a, x, b, "-", y) for a in ("//", "%") for b in ("//", "%") for x in ("2", "3") for y in ("2", "3")]
    + [("N", a, "M", b, x, c, "-", y) for a in ("+", "-") for b in _MUL for c in _MUL for x in ("2",) for y in ("3",)]
)


def check_strings(chk, L, st, parse, shard, nshards):
    """Every token string of length <= L that Python accepts as an expression of the documented grammar."""
    undecided = 0
    idx = 0
    for n in range(1, L + 2):
        # n == L + 1: not the full product but the targeted family CHAINS (left-associative chains of same-precedence
        # operators whose last operand is negated or parenthesised-negative), which the length bound would otherwise cut off
        for toks in (itertools.product(TOKENS, repeat=n) if n <= L else [c for c in CHAINS if len(c) > L]):
            idx += 1
            if idx % nshards != shard:
                continue
            text = " ".join(toks)
            if "* *" in text or "/ /" in text:
                continue  # spaces would split a two-character operator
            # cheap syntactic pre-filter: balanced, no leading binary operator
            try:
                tree = ast.parse(text, mode="eval")
            except SyntaxError:
                continue
            env = {"syms": {}, "defined": []}
            try:
                want = py_z3(tree, env)
            except Untranslatable:
                continue  # outside the documented grammar / the encodable subset
            chk.obligations += 1
            chk.case(f"string:{n}")
            try:
                got_expr = parse(text)
            except Exception as ex:  # noqa: BLE001
                chk.violation("C16:parser:rejects", f"string {text!r} of the documented grammar is rejected: {ex}", dict(kind="parser-rejects", text=text))
                continue
            try:
                got = sym_z3(got_expr, env)
            except Untranslatable as ex:
                chk.note_inconclusive(f"string {text!r}: cannot translate parser output {got_expr}: {ex}")
                continue
            r, binding = differ(got, want, env, st)
            if r == "unsat":
                chk.discharged += 1
            elif r == "sat":
                bad, detail = replay_string(text, got_expr, binding)
                if bad:
                    chk.violation("C16:parser:meaning", f"string {text!r}: {detail}", dict(kind="parser-meaning", text=text, binding=binding))
                else:
                    chk.note_inconclusive(f"string {text!r}: binding {binding} did not reproduce ({detail})")
            else:
                undecided += 1
                chk.extra.setdefault("unknown_log", []).append(f"string {text!r}")
    return undecided


def replay_string(text, got_expr, binding):
    """Python's own evaluation of the string with exact Fractions vs the parser's expression"""
    env = {k: Fraction(v) for k, v in binding.items()}
    env.update(max=max, min=min, floor=lambda x: Fraction(math.floor(x)), Max=max, Min=min, mod=lambda a, b: a - b * math.floor(a / b))
    env["Mod"] = env["mod"]
    src = text
    # make integer literals Fractions so that '/' is exact and '//' floors exactly
    import re

    src = re.sub(r"\b(\d+)\b", r"F(\1)", src)
    env["F"] = Fraction
    try:
        want = eval(src, {"__builtins__": {}}, env)  # noqa: S307 - strings come from our own token alphabet
    except ZeroDivisionError:
        return False, "undefined"
    want = Fraction(want)
    got = sym_exact(got_expr, binding)
    return got != want, f"at {binding}: parser's expression {got_expr} gives {got}, Python arithmetic gives {want}"


# ---- tree families ------------------------------------------------------------------------------------


def leaves(full):
    ints = (1, 2, 3, 7, -3) if full else (2, 3, -3)
    return [("sym", s) for s in SYMS] + [("int", i) for i in ints]


def depth1(full):
    L = leaves(full)
    out = []
    for u in UNARY:
        out += [(u, a) for a in L if a[0] == "sym" or u == "neg"]
    for b in BINARY:
        out += [(b, x, y) for x in L for y in L if x[0] == "sym" or y[0] == "sym"]
    return out


def trees_for(tier):
    d1 = depth1(True)
    out = list(d1)
    inner_ops = ("+", "-", "//", "%", "/") if tier == "quick" else BINARY
    inner = [t for t in depth1(tier != "quick") if t[0] in inner_ops or (tier != "quick" and t[0] in UNARY)]
    L2 = leaves(False)
    for u in UNARY:
        out += [(u, t) for t in inner]
    for b in BINARY:
        for t in inner:
            for x in L2:
                out.append((b, t, x))
                out.append((b, x, t))
    if tier == "thorough":
        core = [t for t in depth1(False) if t[0] in ("+", "-", "//", "%", "/", "*")]
        for b in ("+", "-", "//", "%", "*", "min"):
            out += [(b, s, t) for s in core[::3] for t in core[::4]]
    # rounding of a quotient whose divisor is a difference/sum of dimensions (not sign-definite): depth 3
    for u in ("floor", "ceil", "trunc"):
        for q in ("/", "//"):
            for a in (("sym", "N"), ("int", 7)):
                for inner_op in ("-", "+"):
                    for b_, c_ in ((("sym", "M"), ("sym", "N")), (("sym", "M"), ("int", 3)), (("int", 2), ("sym", "M")), (("sym", "N"), ("sym", "M"))):
                        if u in UNARY and q in BINARY and inner_op in BINARY:
                            out.append((u, (q, a, (inner_op, b_, c_))))
    # de-duplicate
    seen, uniq = set(), []
    for t in out:
        if t not in seen:
            seen.add(t)
            uniq.append(t)
    return uniq


def validate_translation(ir):
    """sympy->z3 and reference agree with SymbolicDim.evaluate on concrete bindings (encoding validation)."""
    n = 0
    for t in depth1(True)[::5]:
        d = build(t, ir)
        if not isinstance(d, ir.SymbolicDim):
            continue
        for binding in ({"N": 3, "M": 2}, {"N": 7, "M": 5}):
            want = ref_exact(t, binding)
            if want is None:
                continue
            env = {"syms": {}, "defined": []}
            term = sym_z3(d._expr, env)
            s = z3.Solver()
            for k, v in env["syms"].items():
                s.add(v == binding[k])
            s.add(*env["defined"])
            assert str(s.check()) == "sat"
            val = s.model().eval(term, model_completion=True)
            got = Fraction(val.numerator_as_long(), val.denominator_as_long()) if z3.is_rational_value(val) else None
            lib = d.evaluate(binding)
            lib = Fraction(lib) if isinstance(lib, int) else sym_exact(lib._expr, binding)
            assert got == lib, (show(t), binding, got, lib)
            n += 1
    return n


def shard(chk, tier, item):
    import onnx_ir as ir
    from onnx_ir._symbolic_shapes import parse_symbolic_expression as parse

    kind, i, n = item
    st = Stats()
    undecided = 0
    if kind == "trees":
        ts = trees_for(tier)[i::n]
        for t in ts:
            chk.case("tree:" + _ops(t))
            undecided += check_tree(chk, t, st, ir, parse)
            if len(chk.samples) < 2:
                chk.sample({"tree": show(t)})
        chk.extra["trees"] = len(ts)
    else:
        undecided += check_strings(chk, 5 if tier == "quick" else 6, st, parse, i, n)
    chk.queries += st.queries
    chk.solver_s += st.solver_s
    chk.extra["undecided_queries"] = undecided
    chk.extra["decided_only_for_bindings_up_to_%d" % BOUNDED] = getattr(st, "bounded_only", 0)
    if undecided:
        chk.note_inconclusive(f"shard {item}: {undecided} queries answered unknown within the per-query time limit: {chk.extra.get('unknown_log', [])[:6]}")


def run(chk, tier):
    import onnx_ir as ir

    chk.fn("_core.SymbolicDim.__add__/__radd__/__sub__/__rsub__/__mul__/__rmul__/__floordiv__/__truediv__/__rtruediv__/__mod__/__neg__/__floor__/__ceil__/__trunc__",
           "_core.SymbolicDim.simplify/evaluate/free_symbols/value/_expr", "_symbolic_shapes.parse_symbolic_expression", "serde.serialize_dimension_into")
    chk.assume(
        "symbols range over ALL integers >= 1 (positive dims); bindings that make a divisor zero are excluded on both sides",
        f"queries the non-linear solver cannot decide over all integers (nested symbolic-by-symbolic division) are decided for bindings 1..{BOUNDED} instead; their number is reported in coverage",
        "trusted: the SymPy -> z3 translation (validated at start-up against evaluate() on concrete bindings) and SymPy's exact rational arithmetic used in the replay",
        "reference semantics: exact rational arithmetic with Python's floor division / modulo / floor / ceil / trunc",
        "parser reference: Python's own grammar (ast) restricted to the documented operators and functions; exponents are small integer constants",
    )
    chk.validation.append(f"sympy->z3 and reference semantics vs SymbolicDim.evaluate: {validate_translation(ir)} concrete comparisons")
    ntrees = len(trees_for(tier))
    chk.bounds = dict(trees=f"{ntrees} expression trees: all of depth 1 over leaves {{N,M,1,2,3,7,-3}}, depth 2 with one nested operand" + (" (inner op in + - // % /)" if tier == "quick" else " (all inner ops) plus two-sided nesting on a grid"),
                      bindings="all integers >= 1 (unbounded)", partial_bindings="N in {1,2,5}, M unbounded",
                      strings=f"all strings of <= {5 if tier == 'quick' else 6} tokens over {TOKENS} that Python parses")
    chk.not_decided += ["expressions deeper than the bound", "sqrt and non-integer powers", "symbol names other than identifiers"]
    n = 16
    items = [("trees", i, n) for i in range(n)] + [("strings", i, n) for i in range(n)]
    parallel(chk, "harness.C16", "shard", items)
    chk.extra["programs"] = ntrees
    chk.extra["disagreements_checked"] = len(chk.violations) + len(chk.inconclusive)
    chk.extra["rule"] = "one case per distinct operator set of a tree / per string length; each obligation is a z3 query over all positive integer bindings"


def replay(rec):
    import onnx_ir as ir
    from onnx_ir._symbolic_shapes import parse_symbolic_expression as parse

    def tup(x):
        return tuple(tup(y) if isinstance(y, list) else y for y in x)

    if rec["kind"] in ("parser-meaning",):
        bad, detail = replay_string(rec["text"], parse(rec["text"]), rec["binding"])
        print(detail)
        return bad
    if rec["kind"] == "parser-rejects" or rec["kind"] == "reparse-rejected":
        try:
            parse(rec["text"])
            return False
        except Exception as e:  # noqa: BLE001
            print(e)
            return True
    t = tup(rec["tree"])
    d = build(t, ir)
    if rec["kind"] == "partial":
        bad, detail = replay_partial(t, d, rec["k"], rec["binding"])
    else:
        expr = d._expr if rec["kind"] == "evaluate" else d.simplify()._expr if rec["kind"] == "simplify" else parse(d.value)
        bad, detail = replay_binding(t, expr, rec["binding"], rec["kind"])
    print(detail)
    return bad
